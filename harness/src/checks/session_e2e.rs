//! Session-level end-to-end parts that only need a capturing mock node:
//!  * C09 part b — what `Session::{query_*, execute_*, batch}` put on the wire
//!    equals what the caller asked for (consistency, serial consistency, page
//!    size, paging state, timestamp, values in order);
//!  * C18 part b — timestamps of concurrent writes through a session with the
//!    monotonic generator are pairwise distinct; an explicit statement
//!    timestamp is sent unchanged;
//!  * C19 part c — a requested metadata refresh is answered and the published
//!    state reflects the latest topology, also when changes arrive in bursts.

use super::e2e::*;
use crate::fw::{self, Ctx, Outcome, Rng};
use crate::mock::log::Ev;
use crate::mock::*;
use crate::wire::prim::Value;
use crate::wire::request::{BatchStatement, QueryParams, Request};
use crate::wire::response::*;
use scylla::policies::timestamp_generator::MonotonicTimestampGenerator;
use scylla::statement::batch::{Batch, BatchType};
use scylla::statement::{Consistency, SerialConsistency, Statement};
use scylla::value::MaybeUnset;
use serde_json::json;
use std::collections::{BTreeSet, HashMap};
use std::sync::{Arc, Mutex};
use std::time::Duration;

const T_INS: &str = "INSERT INTO ks.cap (op, a, b, c) VALUES (?, ?, ?, ?)";
const T_SEL: &str = "SELECT a FROM ks.cap WHERE op = ?";
/// a conditional statement: the node marks it as LWT in its PREPARED answer (SCYLLA_LWT_ADD_METADATA_MARK)
const T_LWT: &str = "INSERT INTO ks.cap (op, a, b, c) VALUES (?, ?, ?, ?) IF NOT EXISTS";
/// named bind markers, two of them used twice: the frame carries one value per MARKER (op, a, b, c, a, op)
const T_NAMED: &str = "UPDATE ks.cap SET a = :a, b = :b, c = :c WHERE op = :op IF a != :a AND op = :op";

/// Captures every non-system request; pages SELECTs with a scripted paging state.
struct Capture {
    seen: Mutex<Vec<(u64, Arc<Request>, u64)>>, // (op, request, recv seq)
}

fn op_from_values(v: &[Value]) -> Option<u64> {
    match v.first()? {
        Value::Bytes(b) if b.len() == 8 => Some(u64::from_be_bytes(b.as_slice().try_into().ok()?)),
        _ => None,
    }
}

impl Handler for Capture {
    fn statement(&self, _node: &MockNode, query: &str) -> Option<StatementDef> {
        let mut d = StatementDef::new(query, &fw::hash_str(query).to_be_bytes());
        if query == T_INS || query == T_LWT {
            d.lwt = query == T_LWT;
            d.bind = vec![
                ColSpec::new("ks", "cap", "op", ColType::BigInt),
                ColSpec::new("ks", "cap", "a", ColType::Int),
                ColSpec::new("ks", "cap", "b", ColType::Text),
                ColSpec::new("ks", "cap", "c", ColType::BigInt),
            ];
            d.pk_indexes = vec![0];
            Some(d)
        } else if query == T_NAMED {
            d.bind = vec![
                ColSpec::new("ks", "cap", "op", ColType::BigInt),
                ColSpec::new("ks", "cap", "a", ColType::Int),
                ColSpec::new("ks", "cap", "b", ColType::Text),
                ColSpec::new("ks", "cap", "c", ColType::BigInt),
                ColSpec::new("ks", "cap", "a", ColType::Int),
                ColSpec::new("ks", "cap", "op", ColType::BigInt),
            ];
            d.pk_indexes = vec![0];
            Some(d)
        } else if query == T_SEL {
            d.bind = vec![ColSpec::new("ks", "cap", "op", ColType::BigInt)];
            d.pk_indexes = vec![0];
            d.result = vec![ColSpec::new("ks", "cap", "a", ColType::Int)];
            Some(d)
        } else {
            None
        }
    }
    fn on_request(&self, rq: Rq) {
        let op = match &*rq.request {
            // literal form (no bound values): the op is the first literal of the VALUES list
            Request::Query { query, params } if params.values.is_none() => query.split("VALUES (").nth(1).and_then(|s| s.split(',').next()).and_then(|s| s.trim().parse::<u64>().ok()),
            Request::Query { params, .. } | Request::Execute { params, .. } => params.values.as_ref().and_then(|v| op_from_values(v)),
            Request::Batch { statements, .. } => statements.iter().find_map(|s| match s {
                BatchStatement::Prepared { values, .. } | BatchStatement::Query { values, .. } => op_from_values(values),
            }),
            _ => None,
        };
        if let Some(op) = op {
            self.seen.lock().unwrap().push((op, rq.request.clone(), rq.seq));
        }
        // SELECTs: two pages, paging state derived from the op
        let sel = match &*rq.request {
            Request::Execute { .. } => rq.statement.as_ref().map(|s| s.query == T_SEL).unwrap_or(false),
            Request::Query { query, .. } => query == T_SEL,
            _ => false,
        };
        if sel {
            let (ps_in, op) = match &*rq.request {
                Request::Query { params, .. } | Request::Execute { params, .. } => (params.paging_state.clone(), op.unwrap_or(0)),
                _ => (None, 0),
            };
            let next = if ps_in.is_none() { Some(paging_state_for(op)) } else { None };
            rq.rows(vec![ColSpec::new("ks", "cap", "a", ColType::Int)], vec![vec![Some(vec![0, 0, 0, 7])]], next);
        } else {
            rq.void();
        }
    }
}

fn paging_state_for(op: u64) -> Vec<u8> {
    let mut v = b"ps:".to_vec();
    v.extend_from_slice(&op.to_be_bytes());
    v.push(0);
    v.push(0xff);
    v
}

#[derive(Clone, Debug)]
struct Ask {
    op: u64,
    api: &'static str,
    cl: Consistency,
    serial: Option<SerialConsistency>,
    page_size: i32,
    timestamp: Option<i64>,
    a: Option<i32>,
    b_unset: bool,
    b: String,
    c: i64,
    /// execute_unpaged only: values bound BY NAME (a map) to a statement that uses two names twice
    named: bool,
}

fn want_values(a: &Ask) -> Vec<Value> {
    let mut v = want_values_once(a);
    if a.named {
        v.push(v[1].clone());
        v.push(v[0].clone());
    }
    v
}

fn want_values_once(a: &Ask) -> Vec<Value> {
    vec![
        Value::Bytes((a.op as i64).to_be_bytes().to_vec()),
        match a.a {
            Some(x) => Value::Bytes(x.to_be_bytes().to_vec()),
            None => Value::Null,
        },
        if a.b_unset { Value::NotSet } else { Value::Bytes(a.b.as_bytes().to_vec()) },
        Value::Bytes(a.c.to_be_bytes().to_vec()),
    ]
}

fn check_params(o: &mut Outcome, a: &Ask, what: &str, p: &QueryParams, expect_page: Option<i32>, expect_ps: Option<Vec<u8>>, replay: &serde_json::Value) {
    let mut bad = |field: &str, got: String, want: String| {
        o.violation(format!("c09b:{}:{field}", a.api), format!("{what} of op {}: {field} on the wire is {got}, the caller asked for {want}", a.op), replay.clone());
    };
    if p.consistency != a.cl as u16 {
        bad("consistency", p.consistency.to_string(), (a.cl as u16).to_string());
    }
    let want_serial = a.serial.map(|s| s as u16);
    if p.serial_consistency != want_serial {
        bad("serial_consistency", format!("{:?}", p.serial_consistency), format!("{want_serial:?}"));
    }
    if p.timestamp != a.timestamp {
        bad("timestamp", format!("{:?}", p.timestamp), format!("{:?}", a.timestamp));
    }
    if p.page_size != expect_page {
        bad("page_size", format!("{:?}", p.page_size), format!("{expect_page:?}"));
    }
    if p.paging_state != expect_ps {
        bad("paging_state", format!("{:?}", p.paging_state.as_ref().map(|x| fw::hex(x))), format!("{:?}", expect_ps.as_ref().map(|x| fw::hex(x))));
    }
}

pub fn run_c09_b(ctx: &Ctx) -> Outcome {
    let mut o = Outcome::new();
    let rt = runtime(4);
    let mut rng = ctx.rng(909);
    // worlds: what the client asks for x what the node offers. The node decodes every frame with the compression
    // negotiated in STARTUP (none if the algorithm was not offered) - a frame compressed without negotiation, or a
    // STARTUP naming an algorithm that was not offered, is a malformed frame seen by the node.
    use scylla::frame::Compression as DC;
    let worlds: [(&str, Option<DC>, bool, bool, bool); 6] = [
        ("compression:none", None, false, false, false),
        ("compression:lz4-negotiated", Some(DC::Lz4), false, false, false),
        ("compression:snappy-negotiated", Some(DC::Snappy), false, false, false),
        ("compression:lz4-asked-node-offers-snappy-only", Some(DC::Lz4), true, false, false),
        ("compression:snappy-asked-node-offers-none", Some(DC::Snappy), true, true, false),
        // a cluster in the middle of an upgrade: one node speaks the metadata-id extension, the other does not;
        // every frame must be in the dialect negotiated on ITS connection (the nodes parse accordingly)
        ("mixed-cluster:metadata-id-extension-on-one-node-only", None, false, false, true),
    ];
    for (wname, client_comp, no_lz4, no_snappy, mixed) in worlds {
    rt.block_on(async {
        let cap = Arc::new(Capture { seen: Mutex::new(vec![]) });
        let mut spec = single_node_spec();
        spec.nodes[0].features.no_lz4 = no_lz4;
        spec.nodes[0].features.no_snappy = no_snappy;
        spec.nodes[0].features.lwt_mark = Some(0x8000_0000);
        if mixed {
            spec.nodes[0].features.metadata_id = true;
            // (each node owns half of the ring, so that token-aware requests reach both)
            spec.nodes[0].tokens = vec![-(1i64 << 62)];
            spec.nodes.push(NodeSpec::simple("dc1", "r2", vec![1i64 << 62]));
        }
        spec.keyspaces[0].tables.push(TableDef::new("cap", &[("op", "bigint")], &[("a", "int"), ("b", "text"), ("c", "bigint")]));
        let cluster = MockCluster::start(spec, cap.clone()).await;
        o.class(wname);
        let session = match connect(&cluster, |b| b.compression(client_comp)).await {
            Ok(s) => Arc::new(s),
            Err(e) => {
                // what the node saw is judged all the same (a session that cannot be built because its frames are malformed)
                let seen = cluster.log().violations();
                for v in &seen {
                    o.node_violation("c09b", &v, json!({"part": "b", "world": wname, "session_build": e}));
                }
                if seen.is_empty() {
                    o.inconclusive(format!("C09 part b could not start ({wname}): {e}"));
                }
                cluster.shutdown();
                return;
            }
        };
        let ins = match session.prepare(T_INS).await {
            Ok(p) => p,
            Err(e) => {
                o.inconclusive(format!("prepare: {e}"));
                return;
            }
        };
        // a CachingSession over the same session, told to use cached result metadata: every EXECUTE it sends for a
        // statement with result columns asks the node to skip the metadata - the first (cache miss) and all later ones
        let caching = scylla::client::caching_session::CachingSessionBuilder::new_shared(session.clone()).use_cached_result_metadata(true).build();
        let lwt = session.prepare(T_LWT).await.unwrap();
        if lwt.is_confirmed_lwt() {
            o.class("statement-marked-LWT-by-the-node");
        }
        let named = session.prepare(T_NAMED).await.unwrap();
        let mut sel = session.prepare(T_SEL).await.unwrap();
        if mixed {
            // the cached result metadata (and, where negotiated, its id) is used instead of asking for metadata again
            sel.set_use_cached_result_metadata(true);
        }
        let n = ctx.vol(600, 30_000) / if mixed { 4 } else if client_comp.is_none() { 2 } else { 8 };
        for _ in 0..n {
            let a = Ask {
                op: next_op(),
                api: *rng.pick(&["query_unpaged", "execute_unpaged", "batch", "query_single_page", "execute_single_page", "caching_execute_single_page"]),
                cl: *rng.pick(&[Consistency::Any, Consistency::One, Consistency::Two, Consistency::Three, Consistency::Quorum, Consistency::All, Consistency::LocalQuorum, Consistency::EachQuorum, Consistency::LocalOne]),
                serial: *rng.pick(&[None, Some(SerialConsistency::Serial), Some(SerialConsistency::LocalSerial)]),
                page_size: *rng.pick(&[1, 7, 5000, i32::MAX]),
                timestamp: if rng.bool() { Some(rng.i64_boundary()) } else { None },
                a: if rng.chance(1, 4) { None } else { Some(rng.u32() as i32) },
                b_unset: rng.chance(1, 4),
                b: (0..rng.usize(0, 12)).map(|_| *rng.pick(&['x', 'é', '0', ' ', '日'])).collect(),
                c: rng.i64_boundary(),
                named: false,
            };
            let a = Ask { named: a.api == "execute_unpaged" && rng.chance(1, 3), ..a };
            let replay = json!({"part": "b", "ask": format!("{a:?}")});
            // every fourth request finds its prepared statement evicted at the node: the EXECUTE / BATCH that is
            // re-sent after UNPREPARED + re-preparation is the frame the handler sees, and it must say the same
            let evicted = rng.chance(1, 4) && matches!(a.api, "execute_unpaged" | "batch" | "execute_single_page");
            if evicted {
                cluster.node(0).evict_all_user();
                o.class("frame-re-sent-after-UNPREPARED");
            }
            let b_val: MaybeUnset<&str> = if a.b_unset { MaybeUnset::Unset } else { MaybeUnset::Set(a.b.as_str()) };
            let vals = (a.op as i64, a.a, b_val, a.c);
            let res: Result<(), String> = match a.api {
                "query_unpaged" => {
                    let mut st = Statement::new(T_INS);
                    st.set_consistency(a.cl);
                    st.set_serial_consistency(a.serial);
                    st.set_timestamp(a.timestamp);
                    st.set_page_size(a.page_size);
                    session.query_unpaged(st, vals).await.map(|_| ()).map_err(|e| e.to_string())
                }
                "execute_unpaged" if a.named => {
                    use scylla::value::CqlValue;
                    let mut p = named.clone();
                    p.set_consistency(a.cl);
                    p.set_serial_consistency(a.serial);
                    p.set_timestamp(a.timestamp);
                    p.set_page_size(a.page_size);
                    let cells: [(&str, MaybeUnset<Option<CqlValue>>); 4] = [
                        ("op", MaybeUnset::Set(Some(CqlValue::BigInt(a.op as i64)))),
                        ("a", MaybeUnset::Set(a.a.map(CqlValue::Int))),
                        ("b", if a.b_unset { MaybeUnset::Unset } else { MaybeUnset::Set(Some(CqlValue::Text(a.b.clone()))) }),
                        ("c", MaybeUnset::Set(Some(CqlValue::BigInt(a.c)))),
                    ];
                    o.class("values-bound-by-name:marker-used-twice");
                    match a.op % 4 {
                        0 => session.execute_unpaged(&p, cells.iter().cloned().collect::<std::collections::HashMap<&str, _>>()).await,
                        1 => session.execute_unpaged(&p, cells.iter().cloned().map(|(k, v)| (k.to_string(), v)).collect::<std::collections::HashMap<String, _>>()).await,
                        2 => session.execute_unpaged(&p, cells.iter().cloned().collect::<std::collections::BTreeMap<&str, _>>()).await,
                        _ => session.execute_unpaged(&p, cells.iter().cloned().map(|(k, v)| (k.to_string(), v)).collect::<std::collections::BTreeMap<String, _>>()).await,
                    }
                    .map(|_| ())
                    .map_err(|e| e.to_string())
                }
                "execute_unpaged" => {
                    let mut p = if rng.chance(1, 3) { lwt.clone() } else { ins.clone() };
                    p.set_consistency(a.cl);
                    p.set_serial_consistency(a.serial);
                    p.set_timestamp(a.timestamp);
                    p.set_page_size(a.page_size);
                    session.execute_unpaged(&p, vals).await.map(|_| ()).map_err(|e| e.to_string())
                }
                "batch" => {
                    let mut b = Batch::new(*rng.pick(&[BatchType::Logged, BatchType::Unlogged]));
                    b.append_statement(ins.clone());
                    b.append_statement(Statement::new(T_INS));
                    b.set_consistency(a.cl);
                    b.set_serial_consistency(a.serial);
                    b.set_timestamp(a.timestamp);
                    session.batch(&b, (vals.clone(), vals.clone())).await.map(|_| ()).map_err(|e| e.to_string())
                }
                "caching_execute_single_page" => {
                    let mut st = Statement::new(T_SEL);
                    st.set_consistency(a.cl);
                    st.set_serial_consistency(a.serial);
                    st.set_timestamp(a.timestamp);
                    st.set_page_size(a.page_size);
                    caching.execute_single_page(st, (a.op as i64,), scylla::response::PagingState::start()).await.map(|_| ()).map_err(|e| e.to_string())
                }
                "query_single_page" | "execute_single_page" => {
                    // first page, then the page after it with the paging state the node returned
                    let mut first = scylla::response::PagingState::start();
                    let mut err = None;
                    for _ in 0..2 {
                        let r = if a.api == "query_single_page" {
                            let mut st = Statement::new(T_SEL);
                            st.set_consistency(a.cl);
                            st.set_serial_consistency(a.serial);
                            st.set_timestamp(a.timestamp);
                            st.set_page_size(a.page_size);
                            session.query_single_page(st, (a.op as i64,), first.clone()).await
                        } else {
                            let mut p = sel.clone();
                            p.set_consistency(a.cl);
                            p.set_serial_consistency(a.serial);
                            p.set_timestamp(a.timestamp);
                            p.set_page_size(a.page_size);
                            session.execute_single_page(&p, (a.op as i64,), first.clone()).await
                        };
                        match r {
                            Err(e) => {
                                err = Some(e.to_string());
                                break;
                            }
                            Ok((_, resp)) => match resp.into_paging_control_flow() {
                                std::ops::ControlFlow::Continue(ps) => first = ps,
                                std::ops::ControlFlow::Break(()) => break,
                            },
                        }
                    }
                    match err {
                        Some(e) => Err(e),
                        None => Ok(()),
                    }
                }
                _ => unreachable!(),
            };
            o.case(fw::hash64(format!("{a:?}").as_bytes()), true);
            o.class(&format!("api:{}", a.api));
            if let Err(e) = res {
                o.violation(format!("c09b:{}:request-failed", a.api), format!("op {} failed against a node that accepts everything: {e}", a.op), replay.clone());
                continue;
            }
            let frames: Vec<Arc<Request>> = cap.seen.lock().unwrap().iter().filter(|(op, _, _)| *op == a.op).map(|(_, r, _)| r.clone()).collect();
            match a.api {
                "query_unpaged" | "execute_unpaged" => {
                    if frames.len() != 1 {
                        o.violation(format!("c09b:{}:frame-count", a.api), format!("op {} produced {} request frames", a.op, frames.len()), replay.clone());
                        continue;
                    }
                    match &*frames[0] {
                        Request::Query { params, .. } | Request::Execute { params, .. } => {
                            check_params(&mut o, &a, "the request", params, None, None, &replay);
                            if params.values.as_deref() != Some(&want_values(&a)[..]) {
                                o.violation(format!("c09b:{}:values", a.api), format!("op {}: bound values on the wire {:?} differ from {:?}", a.op, params.values, want_values(&a)), replay.clone());
                            }
                        }
                        other => o.violation(format!("c09b:{}:request-kind", a.api), format!("op {} arrived as {other:?}", a.op), replay.clone()),
                    }
                }
                "caching_execute_single_page" => {
                    if frames.len() != 1 {
                        o.violation("c09b:caching_execute_single_page:frame-count", format!("op {} produced {} request frames", a.op, frames.len()), replay.clone());
                        continue;
                    }
                    match &*frames[0] {
                        Request::Execute { params, .. } => {
                            check_params(&mut o, &a, "the request", params, Some(a.page_size), None, &replay);
                            if !params.skip_metadata {
                                o.violation("c09b:caching_execute_single_page:skip-metadata-flag", format!("op {}: the CachingSession uses cached result metadata, but this EXECUTE does not carry the skip-metadata flag", a.op), replay.clone());
                            } else {
                                o.class("caching-session:skip-metadata-flag-on-the-wire");
                            }
                        }
                        other => o.violation("c09b:caching_execute_single_page:request-kind", format!("op {} arrived as {other:?}", a.op), replay.clone()),
                    }
                }
                "batch" => {
                    if frames.len() != 1 {
                        o.violation("c09b:batch:frame-count", format!("op {} produced {} frames", a.op, frames.len()), replay.clone());
                        continue;
                    }
                    if let Request::Batch { statements, consistency, serial_consistency, timestamp, .. } = &*frames[0] {
                        if *consistency != a.cl as u16 {
                            o.violation("c09b:batch:consistency", format!("op {}: {consistency} != {}", a.op, a.cl as u16), replay.clone());
                        }
                        if *serial_consistency != a.serial.map(|s| s as u16) {
                            o.violation("c09b:batch:serial_consistency", format!("op {}: {serial_consistency:?}", a.op), replay.clone());
                        }
                        if *timestamp != a.timestamp {
                            o.violation("c09b:batch:timestamp", format!("op {}: {timestamp:?} != {:?}", a.op, a.timestamp), replay.clone());
                        }
                        if statements.len() != 2 {
                            o.violation("c09b:batch:statement-count", format!("op {}: {} statements", a.op, statements.len()), replay.clone());
                        }
                        for s in statements {
                            let v = match s {
                                BatchStatement::Prepared { values, .. } | BatchStatement::Query { values, .. } => values,
                            };
                            if v[..] != want_values(&a)[..] {
                                o.violation("c09b:batch:values", format!("op {}: values {v:?} differ from {:?}", a.op, want_values(&a)), replay.clone());
                            }
                        }
                    } else {
                        o.violation("c09b:batch:request-kind", format!("op {} arrived as {:?}", a.op, frames[0]), replay.clone());
                    }
                }
                _ => {
                    if frames.len() != 2 {
                        o.violation(format!("c09b:{}:frame-count", a.api), format!("op {}: two pages were fetched, {} frames arrived", a.op, frames.len()), replay.clone());
                        continue;
                    }
                    for (i, f) in frames.iter().enumerate() {
                        match &**f {
                            Request::Query { params, .. } | Request::Execute { params, .. } => {
                                let ps = if i == 0 { None } else { Some(paging_state_for(a.op)) };
                                check_params(&mut o, &a, if i == 0 { "the first page request" } else { "the second page request" }, params, Some(a.page_size), ps, &replay);
                            }
                            other => o.violation(format!("c09b:{}:request-kind", a.api), format!("op {} arrived as {other:?}", a.op), replay.clone()),
                        }
                    }
                    o.class("paging-state-returned-verbatim");
                }
            }
            if o.want_sample() {
                o.sample(json!({"ask": format!("{a:?}"), "frames": frames.iter().map(|f| format!("{f:?}").chars().take(200).collect::<String>()).collect::<Vec<_>>()}));
            }
        }
        if mixed {
            let on_plain_node = cluster.log().snapshot().iter().filter(|l| matches!(&l.ev, Ev::Recv { node: 1, request, .. } if matches!(&**request, Request::Execute { .. }))).count();
            if on_plain_node > 0 {
                o.class("mixed-cluster:EXECUTE-frames-on-the-node-without-the-extension");
            }
        }
        for v in cluster.log().violations() {
            o.node_violation("c09b", &v, json!({"part": "b", "world": wname}));
        }
        // with compression negotiated the node must actually have seen compressed request frames
        if client_comp.is_some() && !no_lz4 && !no_snappy {
            let compressed = cluster.established(0).iter().filter(|c| c.compression().is_some()).count();
            if compressed == 0 {
                o.violation("c09b:compression-not-negotiated", format!("{wname}: no connection of the session negotiated the compression the client configured and the node offers"), json!({"part": "b", "world": wname}));
            }
        }
        cluster.shutdown();
    });
    }
    for c in ["compression:none", "compression:lz4-negotiated", "compression:snappy-negotiated", "compression:lz4-asked-node-offers-snappy-only", "compression:snappy-asked-node-offers-none", "mixed-cluster:metadata-id-extension-on-one-node-only", "mixed-cluster:EXECUTE-frames-on-the-node-without-the-extension"] {
        o.require_class(c);
    }
    for c in ["api:query_unpaged", "api:execute_unpaged", "api:batch", "api:query_single_page", "api:execute_single_page", "api:caching_execute_single_page", "caching-session:skip-metadata-flag-on-the-wire", "paging-state-returned-verbatim", "frame-re-sent-after-UNPREPARED", "values-bound-by-name:marker-used-twice", "statement-marked-LWT-by-the-node"] {
        o.require_class(c);
    }
    o
}

pub fn run_c18_b(ctx: &Ctx) -> Outcome {
    let mut o = Outcome::new();
    let rt = runtime(ctx.workers.min(8));
    rt.block_on(async {
        let cap = Arc::new(Capture { seen: Mutex::new(vec![]) });
        let mut spec = single_node_spec();
        spec.keyspaces[0].tables.push(TableDef::new("cap", &[("op", "bigint")], &[("a", "int"), ("b", "text"), ("c", "bigint")]));
        spec.nodes[0].features.lwt_mark = Some(0x8000_0000);
        let cluster = MockCluster::start(spec, cap.clone()).await;
        let session = match connect(&cluster, |b| b.timestamp_generator(Arc::new(MonotonicTimestampGenerator::new()))).await {
            Ok(s) => Arc::new(s),
            Err(e) => {
                o.inconclusive(format!("C18 part b could not start: {e}"));
                return;
            }
        };
        let ins = Arc::new(session.prepare(T_INS).await.unwrap());
        let lwt = Arc::new(session.prepare(T_LWT).await.unwrap());
        if lwt.is_confirmed_lwt() {
            o.class("statement-marked-LWT-by-the-node");
        }
        let sel = Arc::new(session.prepare(T_SEL).await.unwrap());
        let tasks = 16usize;
        let per = ctx.vol(150, 5000) as usize;
        let explicit: Arc<Mutex<HashMap<u64, i64>>> = Arc::new(Mutex::new(HashMap::new()));
        let mut hs = Vec::new();
        // the node forgets its prepared statements now and then: EXECUTEs are answered UNPREPARED and
        // re-sent after re-preparation; the re-sent frame must carry the same timestamp
        let stop_evict = Arc::new(std::sync::atomic::AtomicBool::new(false));
        let evictor = {
            let (c, stop) = (cluster.clone(), stop_evict.clone());
            tokio::spawn(async move {
                let mut n = 0u64;
                while !stop.load(std::sync::atomic::Ordering::SeqCst) {
                    tokio::time::sleep(Duration::from_millis(3)).await;
                    c.node(0).evict_all_user();
                    n += 1;
                }
                n
            })
        };
        for t in 0..tasks {
            let (s, ins, lwt, sel, explicit) = (session.clone(), ins.clone(), lwt.clone(), sel.clone(), explicit.clone());
            let mut rng = Rng::new(ctx.seed, 1800 + t as u64);
            hs.push(tokio::spawn(async move {
                for _ in 0..per {
                    let op = next_op();
                    let vals = (op as i64, Some(1i32), MaybeUnset::Set("x"), 2i64);
                    let ts = if rng.chance(1, 5) { Some(rng.i64_boundary()) } else { None };
                    if let Some(t) = ts {
                        explicit.lock().unwrap().insert(op, t);
                    }
                    let _ = match rng.below(7) {
                        // a paged SELECT read to its end (two pages): every page request carries the timestamp
                        6 => {
                            use futures::StreamExt;
                            let mut p = (*sel).clone();
                            p.set_timestamp(ts);
                            p.set_page_size(1);
                            if let Ok(pager) = s.execute_iter(p, (op as i64,)).await {
                                if let Ok(mut rows) = pager.rows_stream::<(i32,)>() {
                                    while let Some(r) = rows.next().await {
                                        if r.is_err() {
                                            break;
                                        }
                                    }
                                }
                            }
                            Ok(())
                        }
                        0 => {
                            let mut st = Statement::new(T_INS);
                            st.set_timestamp(ts);
                            s.query_unpaged(st, vals).await.map(|_| ())
                        }
                        // the paging-iterator path builds its frames elsewhere
                        4 => {
                            let mut p = (*ins).clone();
                            p.set_timestamp(ts);
                            let _ = s.execute_iter(p, vals).await;
                            Ok(())
                        }
                        5 => {
                            let mut st = Statement::new(format!("INSERT INTO ks.cap (op, a, b, c) VALUES ({op}, 1, 'x', 2)"));
                            st.set_timestamp(ts);
                            let _ = s.query_iter(st, ()).await;
                            Ok(())
                        }
                        3 => {
                            // no bound values: travels as a QUERY frame
                            let mut st = Statement::new(format!("INSERT INTO ks.cap (op, a, b, c) VALUES ({op}, 1, 'x', 2)"));
                            st.set_timestamp(ts);
                            s.query_unpaged(st, ()).await.map(|_| ())
                        }
                        1 => {
                            // (every third one is a conditional statement the node marked as LWT)
                            let mut p = if rng.chance(1, 3) { (*lwt).clone() } else { (*ins).clone() };
                            p.set_timestamp(ts);
                            s.execute_unpaged(&p, vals).await.map(|_| ())
                        }
                        _ => {
                            let mut b = Batch::default();
                            b.set_timestamp(ts);
                            if rng.bool() {
                                b.append_statement((*ins).clone());
                                s.batch(&b, (vals,)).await.map(|_| ())
                            } else {
                                // an unprepared statement WITH values: the connection prepares it on the fly and rebuilds the batch
                                b.append_statement((*ins).clone());
                                b.append_statement(Statement::new(T_INS));
                                s.batch(&b, (vals.clone(), vals)).await.map(|_| ())
                            }
                        }
                    };
                }
            }));
        }
        for h in hs {
            let _ = h.await;
        }
        stop_evict.store(true, std::sync::atomic::Ordering::SeqCst);
        let evictions = evictor.await.unwrap_or(0);
        o.note("evictions_during_workload", json!(evictions));
        let unprepared_answers = cluster.log().snapshot().iter().filter(|l| matches!(&l.ev, Ev::Send { opcode: 0, .. })).count();
        o.note("unprepared_answers", json!(unprepared_answers));
        if unprepared_answers > 0 {
            o.class("execute-resent-after-unprepared");
        }
        let seen = cap.seen.lock().unwrap().clone();
        let explicit = explicit.lock().unwrap().clone();
        let mut generated: Vec<(i64, u64)> = Vec::new();
        for (op, req, _) in &seen {
            let (ts, kind) = match &**req {
                Request::Query { params, .. } => (params.timestamp, "QUERY"),
                Request::Execute { params, .. } => (params.timestamp, "EXECUTE"),
                Request::Batch { timestamp, .. } => (*timestamp, "BATCH"),
                _ => continue,
            };
            o.case(*op, true);
            o.class(&format!("frame:{kind}"));
            match (explicit.get(op), ts) {
                (Some(want), Some(got)) if *want == got => o.class("explicit-timestamp-sent-unchanged"),
                (Some(want), got) => o.violation(format!("c18b:explicit-timestamp-altered:{kind}"), format!("op {op}: the statement's timestamp {want} arrived as {got:?}"), json!({"part": "b", "op": op})),
                (None, None) => o.violation(format!("c18b:no-timestamp-although-generator-configured:{kind}"), format!("op {op}: the frame carries no timestamp although the session has a timestamp generator"), json!({"part": "b", "op": op})),
                (None, Some(t)) => generated.push((t, *op)),
            }
        }
        generated.sort();
        for w in generated.windows(2) {
            // (two page requests of ONE paged read are one statement execution: not judged against each other)
            if w[0].0 == w[1].0 && w[0].1 != w[1].1 {
                o.violation("c18b:duplicate-generated-timestamp", format!("ops {} and {} were sent with the same generated timestamp {}", w[0].1, w[1].1, w[0].0), json!({"part": "b"}));
                break;
            }
        }
        o.note("generated_timestamps_observed", json!(generated.len()));
        o.note("explicit_timestamps_observed", json!(explicit.len()));
        o.sample(json!({"tasks": tasks, "per_task": per, "generated": generated.len(), "first": generated.first().map(|x| x.0), "last": generated.last().map(|x| x.0)}));
        for v in cluster.log().violations() {
            o.node_violation("c18b", &v, json!({"part": "b"}));
        }
        cluster.shutdown();
    });
    for c in ["frame:QUERY", "frame:EXECUTE", "frame:BATCH", "explicit-timestamp-sent-unchanged", "execute-resent-after-unprepared", "statement-marked-LWT-by-the-node"] {
        o.require_class(c);
    }
    o
}

/// C19 part c: refresh_metadata() returns and the published state shows the latest peers while
/// topology changes and events arrive in bursts.
pub fn run_c19_c(ctx: &Ctx) -> Outcome {
    let mut o = Outcome::new();
    let rt = runtime(4);
    let rounds = ctx.vol(24, 600);
    let mut rng = ctx.rng(1919);
    for round in 0..rounds {
        let burst = rng.usize(2, 6);
        let with_events = rng.bool();
        let seed = rng.u64();
        rt.block_on(async {
            let spec = ClusterSpec {
                nodes: vec![NodeSpec::simple("dc1", "r1", vec![0]), NodeSpec::simple("dc1", "r2", vec![100])],
                keyspaces: vec![KeyspaceDef::simple("ks", 1)],
                cluster_name: "c19".into(),
            };
            let cluster = MockCluster::start(spec, Arc::new(DefaultHandler)).await;
            let session = match connect(&cluster, |b| b).await {
                Ok(s) => Arc::new(s),
                Err(e) => {
                    o.inconclusive(format!("C19 part c could not start: {e}"));
                    return;
                }
            };
            let mut r = Rng::new(seed, 5);
            let mut expected: BTreeSet<uuid::Uuid> = cluster.nodes().iter().map(|n| n.host_id).collect();
            let mut refreshes: Vec<tokio::task::JoinHandle<Result<(), String>>> = Vec::new();
            let mut removed_any = false;
            let mut last_change = 0u64;
            // every other round is a DIRECTED hand-off: the consumer is made busy (it waits for the pool of a node
            // that is slow to accept), a full fetch is requested meanwhile and stays pending, then a node leaves and
            // the REMOVED_NODE event triggers a partial topology fetch that is merged into the pending update
            let directed = round % 2 == 1;
            let cc_break = !directed && (round / 2) % 3 == 0;
            if directed {
                let victim = cluster.add_node(NodeSpec::simple("dc1", "r9", vec![500 + round as i64]), true).await;
                expected.insert(victim.host_id);
                cluster.push_event(&Event::TopologyChange { change: "NEW_NODE".into(), addr: std::net::IpAddr::V4(victim.ip), port: MAIN_PORT as i32 });
                let _ = tokio::time::timeout(Duration::from_secs(20), session.refresh_metadata()).await;
                let slow = cluster.add_node(NodeSpec::simple("dc1", "r8", vec![700 + round as i64]), true).await;
                slow.handshake_delay_ms.store(500 + r.below(400), std::sync::atomic::Ordering::SeqCst);
                expected.insert(slow.host_id);
                cluster.log().push(Ev::Note("members-changed".into()));
                cluster.push_event(&Event::TopologyChange { change: "NEW_NODE".into(), addr: std::net::IpAddr::V4(slow.ip), port: MAIN_PORT as i32 });
                // the consumer is busy once the slow node sees the first connection attempt
                let (c, si) = (cluster.clone(), slow.idx);
                let busy = cluster.wait_until(Duration::from_secs(5), move || c.log().snapshot().iter().any(|l| matches!(l.ev, Ev::Accept { node, .. } if node == si))).await;
                let with_pending_full = r.chance(3, 4);
                if with_pending_full {
                    let s2 = session.clone();
                    refreshes.push(tokio::spawn(async move { s2.refresh_metadata().await.map_err(|e| e.to_string()) }));
                    // let that fetch finish: the control node goes quiet
                    settle(cluster.log(), Duration::from_millis(40), Duration::from_secs(2), || false).await;
                }
                // the victim leaves; the event triggers a re-read of the peer list
                expected.remove(&victim.host_id);
                let members: Vec<usize> = cluster.nodes().iter().filter(|n| expected.contains(&n.host_id)).map(|n| n.idx).collect();
                cluster.set_members(members);
                last_change = cluster.log().push(Ev::Note("members-changed".into()));
                cluster.stop_node(victim.idx, CloseHow::Fin);
                cluster.push_event(&Event::TopologyChange { change: "REMOVED_NODE".into(), addr: std::net::IpAddr::V4(victim.ip), port: MAIN_PORT as i32 });
                removed_any = true;
                o.class(match (busy, with_pending_full) {
                    (true, true) => "c:directed:node-left-while-full-fetch-pending-and-consumer-busy",
                    (true, false) => "c:directed:node-left-while-consumer-busy",
                    _ => "c:directed:consumer-not-seen-busy",
                });
            }
            for step in 0..(if directed { 0 } else { burst }) {
                // a burst of topology changes: new node(s) joining, announced or not by events.
                // Some new nodes are slow to accept connections, so the consumer of the hand-off (the
                // cluster worker, which waits for the new pools) is busy while further fetches complete
                // and are MERGED into the pending update.
                let n = cluster.add_node(NodeSpec::simple("dc1", &format!("r{}", 3 + step), vec![1000 + step as i64 * 10 + round as i64]), true).await;
                if r.chance(2, 3) {
                    n.handshake_delay_ms.store(40 + r.below(160), std::sync::atomic::Ordering::SeqCst);
                }
                expected.insert(n.host_id);
                last_change = cluster.log().push(Ev::Note("members-changed".into()));
                if with_events {
                    cluster.push_event(&Event::TopologyChange { change: "NEW_NODE".into(), addr: std::net::IpAddr::V4(n.ip), port: MAIN_PORT as i32 });
                    cluster.push_event(&Event::StatusChange { change: "UP".into(), addr: std::net::IpAddr::V4(n.ip), port: MAIN_PORT as i32 });
                }
                // concurrent explicit refresh requests (their answers ride on merged updates)
                for _ in 0..r.usize(0, 3) {
                    let s2 = session.clone();
                    let d = r.below(30);
                    refreshes.push(tokio::spawn(async move {
                        tokio::time::sleep(Duration::from_millis(d)).await;
                        s2.refresh_metadata().await.map_err(|e| e.to_string())
                    }));
                }
                if r.bool() {
                    tokio::time::sleep(Duration::from_millis(r.below(40))).await;
                }
                // sometimes the control connection breaks in the middle of the burst (all connections of the
                // contact node are reset): fetches in flight fail, the control connection is re-established,
                // and the refresh requests that were waiting must still be answered (with a result or an error)
                if cc_break && step == burst / 2 {
                    cluster.kill_connections(0, CloseHow::Rst);
                    o.class("c:control-connection-broken-during-burst");
                }
                // sometimes a node that joined earlier in the burst leaves again (decommission): the latest
                // topology no longer lists it
                if step >= 1 && r.chance(1, 3) {
                    let nodes = cluster.nodes();
                    if let Some(victim) = nodes.iter().skip(2).find(|n| expected.contains(&n.host_id)) {
                        expected.remove(&victim.host_id);
                        let members: Vec<usize> = nodes.iter().filter(|n| expected.contains(&n.host_id)).map(|n| n.idx).collect();
                        cluster.set_members(members);
                        last_change = cluster.log().push(Ev::Note("members-changed".into()));
                        cluster.stop_node(victim.idx, CloseHow::Fin);
                        removed_any = true;
                        if with_events {
                            cluster.push_event(&Event::TopologyChange { change: "REMOVED_NODE".into(), addr: std::net::IpAddr::V4(victim.ip), port: MAIN_PORT as i32 });
                        }
                        // a further refresh request lands while the earlier fetch may still be pending
                        let s2 = session.clone();
                        refreshes.push(tokio::spawn(async move { s2.refresh_metadata().await.map_err(|e| e.to_string()) }));
                    }
                }
            }
            if removed_any {
                o.class("c:node-left-during-burst");
            }
            let key = fw::hash64(format!("{burst}:{with_events}:{seed}:{directed}").as_bytes());
            o.case(key, true);
            o.class(if with_events { "c:burst-with-events" } else { "c:burst-without-events" });
            // every refresh that was requested must be answered (bounded progress: 30 s watchdog while the nodes answer within 200 ms)
            let n_ref = refreshes.len();
            for (i, h) in refreshes.into_iter().enumerate() {
                match tokio::time::timeout(Duration::from_secs(30), h).await {
                    Err(_) => o.violation("c19c:refresh-never-answered", format!("concurrent refresh_metadata() call {i} of {n_ref} did not return within 30 s"), json!({"part": "c", "burst": burst, "events": with_events, "seed": seed})),
                    Ok(Err(join)) => o.violation("c19c:refresh-never-answered", format!("concurrent refresh_metadata() call {i} of {n_ref} was dropped unanswered (the call panicked: {join})"), json!({"part": "c", "burst": burst, "events": with_events, "seed": seed})),
                    // with the control connection broken under it a refresh may be answered with the error of its fetch
                    Ok(Ok(Err(_))) if cc_break => o.class("c:concurrent-refresh-answered-with-an-error(control-connection-broken)"),
                    Ok(Ok(Err(e))) => o.violation("c19c:refresh-failed", format!("concurrent refresh_metadata() call {i} failed: {e}"), json!({"part": "c", "burst": burst, "events": with_events, "seed": seed})),
                    Ok(Ok(Ok(()))) => o.class("c:concurrent-refresh-answered"),
                }
            }
            // Before asking again: once the driver has gone quiet (no frame to or from any node for 400 ms, every
            // requested refresh answered), the published state must be that of the LATEST peer list it fetched -
            // asserted when that fetch was served after the last membership change (then it is the final topology).
            {
                let log = cluster.log().clone();
                let t0 = std::time::Instant::now();
                let (mut last, mut last_at) = (log.counter(), std::time::Instant::now());
                let quiet = loop {
                    tokio::time::sleep(Duration::from_millis(5)).await;
                    let c = log.counter();
                    if c != last {
                        last = c;
                        last_at = std::time::Instant::now();
                    }
                    if last_at.elapsed() > Duration::from_millis(400) {
                        break true;
                    }
                    if t0.elapsed() > Duration::from_secs(10) {
                        break false;
                    }
                };
                // the control connection prepares its metadata queries once and then EXECUTEs them by id
                let peers_ids: Vec<Vec<u8>> = cluster.nodes().iter().flat_map(|n| n.prepared.lock().unwrap().iter().filter(|(_, d)| d.query.contains("system.peers")).map(|(id, _)| id.clone()).collect::<Vec<_>>()).collect();
                let last_peers_fetch = log
                    .snapshot()
                    .iter()
                    .filter_map(|l| match &l.ev {
                        Ev::Recv { request, .. } => match &**request {
                            crate::wire::request::Request::Query { query, .. } if query.contains("system.peers") => Some(l.seq),
                            crate::wire::request::Request::Execute { id, .. } if peers_ids.contains(id) => Some(l.seq),
                            _ => None,
                        },
                        _ => None,
                    })
                    .max()
                    .unwrap_or(0);
                if quiet && last_peers_fetch > last_change {
                    // pacing only: nothing further is fetched, so waiting cannot repair a stale state
                    let t1 = std::time::Instant::now();
                    let mut got: BTreeSet<uuid::Uuid>;
                    loop {
                        got = session.get_cluster_state().get_nodes_info().iter().map(|n| n.host_id).collect();
                        if got == expected || t1.elapsed() > Duration::from_secs(3) {
                            break;
                        }
                        tokio::time::sleep(Duration::from_millis(20)).await;
                    }
                    if got != expected {
                        o.violation(
                            "c19c:published-state-not-latest-fetched-topology",
                            format!("the driver went quiet after fetching the final peer list ({} nodes), but the published cluster state names {} nodes", expected.len(), got.len()),
                            json!({"part": "c", "burst": burst, "events": with_events, "seed": seed,
                                "missing": expected.difference(&got).map(|u| u.to_string()).collect::<Vec<_>>(), "stale": got.difference(&expected).map(|u| u.to_string()).collect::<Vec<_>>()}),
                        );
                    } else {
                        o.class("c:quiescent-state-reflects-latest-fetch");
                    }
                } else {
                    if std::env::var("C19_DEBUG").is_ok() { eprintln!("quiet={quiet} last_peers_fetch={last_peers_fetch} last_change={last_change} counter={}", log.counter()); }
                    o.class("c:last-fetch-predates-last-change-or-not-quiet(not-asserted)");
                }
            }
            // (run as a task of its own: if the driver drops the request unanswered the call panics inside the driver)
            let last = {
                let s2 = session.clone();
                tokio::spawn(async move {
                    // (after a control-connection break the first attempts may still hit the re-establishment)
                    let mut res = s2.refresh_metadata().await.map_err(|e| e.to_string());
                    let mut tries = 0;
                    while cc_break && res.is_err() && tries < 20 {
                        tokio::time::sleep(Duration::from_millis(100)).await;
                        res = s2.refresh_metadata().await.map_err(|e| e.to_string());
                        tries += 1;
                    }
                    res
                })
            };
            match tokio::time::timeout(Duration::from_secs(30), last).await {
                Err(_) => o.violation("c19c:refresh-never-answered", "refresh_metadata() did not return within 30 s although the control node answers at once", json!({"part": "c", "burst": burst, "events": with_events, "seed": seed})),
                Ok(Err(join)) => o.violation("c19c:refresh-never-answered", format!("refresh_metadata() was dropped unanswered (the call panicked: {join})"), json!({"part": "c", "burst": burst, "events": with_events, "seed": seed})),
                Ok(Ok(Err(e))) => o.violation("c19c:refresh-failed", format!("refresh_metadata() failed: {e}"), json!({"part": "c", "burst": burst, "events": with_events, "seed": seed})),
                Ok(Ok(Ok(()))) => {
                    let got: BTreeSet<uuid::Uuid> = session.get_cluster_state().get_nodes_info().iter().map(|n| n.host_id).collect();
                    if got != expected {
                        o.violation(
                            "c19c:published-state-not-latest-topology",
                            format!("after refresh_metadata() returned, the cluster state names {} nodes, the latest topology has {}", got.len(), expected.len()),
                            json!({"part": "c", "burst": burst, "events": with_events, "seed": seed, "missing": expected.difference(&got).map(|u| u.to_string()).collect::<Vec<_>>()}),
                        );
                    } else {
                        o.class("c:state-reflects-latest-topology");
                    }
                }
            }
            for v in cluster.log().violations() {
                o.node_violation("c19c", &v, json!({"part": "c"}));
            }
            let _ = Ev::Note(String::new());
            drop(session);
            cluster.shutdown();
        });
    }
    o.sample(json!({"part": "c", "rounds": rounds}));
    for c in ["c:burst-with-events", "c:burst-without-events", "c:state-reflects-latest-topology", "c:concurrent-refresh-answered", "c:node-left-during-burst", "c:quiescent-state-reflects-latest-fetch", "c:directed:node-left-while-full-fetch-pending-and-consumer-busy", "c:control-connection-broken-during-burst"] {
        o.require_class(c);
    }
    o
}
