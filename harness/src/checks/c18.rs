//! C18 — client-side timestamps from the monotonic generator strictly increase.
//!
//! Part "a" (this file, socket-free): N OS threads hammer ONE
//! `MonotonicTimestampGenerator`; the system clock is replaced through the
//! `verif_hooks::set_clock` hook by adversarial clocks (stalled, repeating,
//! stepping backwards, before the epoch) and the window between the atomic load
//! and the compare-exchange is widened through the `ts.between_load_and_cas`
//! pause point. The monitor works offline on the per-thread logs:
//!   * every thread's own sequence is strictly increasing,
//!   * all values of all threads are pairwise distinct (global order + adjacent compare).
//! Nothing else is asserted (in particular no relation to the clock reading).
//!
//! Part "b" (end-to-end through a Session and a mock node) is built elsewhere.
use crate::fw::{self, Ctx, Outcome, Rng};
use scylla::policies::timestamp_generator::{MonotonicTimestampGenerator, TimestampGenerator};
use scylla::verif_hooks as hooks;
use serde_json::{Value, json};
use std::cell::Cell;
use std::sync::atomic::{AtomicU8, AtomicU64, Ordering};
use std::sync::{Arc, Barrier};
use std::time::Duration;

const SITE: &str = "ts.between_load_and_cas";
/// 2023-11-14T22:13:20Z in microseconds; far enough from 0 for 10^4 steps of one hour.
const T0_US: u64 = 1_700_000_000_000_000;

#[derive(Clone, Copy, Debug, PartialEq, Eq)]
enum Mode {
    Real,
    Stalled,
    Repeat,
    Back1us,
    Back1s,
    Back1h,
    BeforeEpoch,
    Mixed,
}

const MODES: [Mode; 8] = [
    Mode::Real,
    Mode::Stalled,
    Mode::Repeat,
    Mode::Back1us,
    Mode::Back1s,
    Mode::Back1h,
    Mode::BeforeEpoch,
    Mode::Mixed,
];

impl Mode {
    fn name(self) -> &'static str {
        match self {
            Mode::Real => "real",
            Mode::Stalled => "stalled",
            Mode::Repeat => "repeat",
            Mode::Back1us => "back-1us",
            Mode::Back1s => "back-1s",
            Mode::Back1h => "back-1h",
            Mode::BeforeEpoch => "before-epoch",
            Mode::Mixed => "mixed",
        }
    }
    fn from_name(s: &str) -> Option<Mode> {
        MODES.iter().copied().find(|m| m.name() == s)
    }
}

/// Pause policy at the point between the load of `last` and the compare-exchange.
#[derive(Clone, Copy, Debug, PartialEq, Eq)]
enum Pause {
    /// only counts loop iterations
    Count = 0,
    /// yields on 1/8 of the iterations
    Yield = 1,
    /// yields on 1/16, spins a seeded number of turns on 1/8, sleeps 1..40 us on 1/2048
    YieldSleep = 2,
    /// every iteration: yield (1/2) or a seeded spin
    Heavy = 3,
}

impl Pause {
    fn name(self) -> &'static str {
        match self {
            Pause::Count => "count-only",
            Pause::Yield => "yield",
            Pause::YieldSleep => "yield-spin-sleep",
            Pause::Heavy => "heavy",
        }
    }
    fn from_u8(x: u8) -> Pause {
        match x {
            1 => Pause::Yield,
            2 => Pause::YieldSleep,
            3 => Pause::Heavy,
            _ => Pause::Count,
        }
    }
    fn from_name(s: &str) -> Pause {
        [Pause::Count, Pause::Yield, Pause::YieldSleep, Pause::Heavy]
            .into_iter()
            .find(|p| p.name() == s)
            .unwrap_or(Pause::Count)
    }
}

thread_local! {
    /// (xorshift state, number of pause-point visits of this thread)
    static TL: Cell<(u64, u64)> = const { Cell::new((0x9e3779b97f4a7c15, 0)) };
}

fn xorshift(s: &mut u64) -> u64 {
    let mut x = *s;
    x ^= x << 13;
    x ^= x >> 7;
    x ^= x << 17;
    *s = x;
    x
}

fn mix(mut x: u64) -> u64 {
    x = (x ^ (x >> 30)).wrapping_mul(0xbf58476d1ce4e5b9);
    x = (x ^ (x >> 27)).wrapping_mul(0x94d049bb133111eb);
    x ^ (x >> 31)
}

/// State shared between the installed hooks and the round driver. The hooks are installed once per
/// clock mode; per-round parameters live in these atomics.
struct Shared {
    /// number of clock readings in this round
    reads: AtomicU64,
    /// parameter `k` of the current round (repeat factor / mean distance of backward steps)
    k: AtomicU64,
    /// seed of the round (decides where the backward steps are)
    seed: AtomicU64,
    pause: AtomicU8,
    no_sleep: bool,
}

fn step_us(mode: Mode) -> u64 {
    match mode {
        Mode::Back1us => 1,
        Mode::Back1s => 1_000_000,
        Mode::Back1h => 3_600_000_000,
        _ => 0,
    }
}

/// The adversarial clock: the n-th reading (n counted globally over all threads) of a round.
fn clock_reading(mode: Mode, n: u64, k: u64, seed: u64) -> Result<Duration, ()> {
    let k = k.max(1);
    match mode {
        Mode::Real => unreachable!(),
        Mode::Stalled => Ok(Duration::from_micros(T0_US)),
        // each microsecond is returned k times (with a sub-microsecond part that must be ignored)
        Mode::Repeat => Ok(Duration::from_nanos((T0_US + n / k) * 1000 + (n % k) * (1000 / k).min(999))),
        // advances 1 us per reading, in blocks of k readings; at seeded points it steps backwards:
        //  * persistent variant: every p-th block (p, phase from the seed) the clock loses `step`
        //    for good (an NTP step) — with 1 us steps it keeps catching up, with 1 s / 1 h steps
        //    it stays behind the generator for the rest of the round;
        //  * dip variant: in seeded blocks the clock reads `step` too little and then recovers.
        Mode::Back1us | Mode::Back1s | Mode::Back1h => {
            let b = n / k;
            let step = step_us(mode);
            let persistent = mode == Mode::Back1us || seed & 2 == 0;
            let back = if persistent {
                let p = 2 + (seed >> 8) % 6;
                let phase = (seed >> 16) % p;
                ((b + p - phase) / p).saturating_mul(step)
            } else if mix(seed ^ b.wrapping_mul(0x9e3779b97f4a7c15)) % 4 == 0 {
                step
            } else {
                0
            };
            Ok(Duration::from_micros((T0_US + n).saturating_sub(back)))
        }
        Mode::BeforeEpoch => Err(()),
        Mode::Mixed => {
            let h = mix(seed ^ (n / k).wrapping_mul(0x9e3779b97f4a7c15));
            match h % 8 {
                0 => Err(()),
                1 => Ok(Duration::from_micros(T0_US)),
                2 => Ok(Duration::from_micros(T0_US + n / k)),
                3 => Ok(Duration::from_micros(T0_US + n)),
                4 => Ok(Duration::from_micros((T0_US + n).saturating_sub(1))),
                5 => Ok(Duration::from_micros((T0_US + n).saturating_sub(1_000_000 + h % 1000))),
                6 => Ok(Duration::from_micros((T0_US + n).saturating_sub(3_600_000_000))),
                _ => Ok(Duration::from_micros(T0_US + n + (h >> 8) % 5_000_000)),
            }
        }
    }
}

fn install_hooks(mode: Mode, sh: &Arc<Shared>) {
    if mode != Mode::Real {
        let s = sh.clone();
        hooks::set_clock(Some(Arc::new(move || {
            let n = s.reads.fetch_add(1, Ordering::Relaxed);
            clock_reading(mode, n, s.k.load(Ordering::Relaxed), s.seed.load(Ordering::Relaxed))
        })));
    } else {
        hooks::set_clock(None);
    }
    let s = sh.clone();
    hooks::set_pause(Some(Arc::new(move |site: &'static str| {
        if site != SITE {
            return;
        }
        let (mut st, visits) = TL.with(|c| c.get());
        let r = xorshift(&mut st);
        TL.with(|c| c.set((st, visits + 1)));
        match Pause::from_u8(s.pause.load(Ordering::Relaxed)) {
            Pause::Count => {}
            Pause::Yield => {
                if r % 8 == 0 {
                    std::thread::yield_now();
                }
            }
            Pause::YieldSleep => {
                if r % 16 == 0 {
                    std::thread::yield_now();
                } else if r % 16 <= 2 {
                    for _ in 0..(r >> 8) % 300 {
                        std::hint::spin_loop();
                    }
                } else if (r >> 4) % 2048 == 0 {
                    if s.no_sleep {
                        std::thread::yield_now();
                    } else {
                        std::thread::sleep(Duration::from_micros(1 + (r >> 20) % 40));
                    }
                }
            }
            Pause::Heavy => {
                if r % 2 == 0 {
                    std::thread::yield_now();
                } else {
                    for _ in 0..(r >> 8) % 200 {
                        std::hint::spin_loop();
                    }
                }
            }
        }
    })));
}

fn clear_hooks() {
    hooks::set_clock(None);
    hooks::set_pause(None);
}

#[derive(Clone, Debug)]
struct RoundCfg {
    mode: Mode,
    threads: usize,
    calls: usize,
    pause: Pause,
    warnings: bool,
    k: u64,
    seed: u64,
}

impl RoundCfg {
    fn to_json(&self) -> Value {
        json!({"mode": self.mode.name(), "threads": self.threads, "calls": self.calls, "pause": self.pause.name(),
               "warnings": self.warnings, "k": self.k, "round_seed": self.seed})
    }
    fn from_json(v: &Value) -> Option<RoundCfg> {
        Some(RoundCfg {
            mode: Mode::from_name(v["mode"].as_str()?)?,
            threads: v["threads"].as_u64()? as usize,
            calls: v["calls"].as_u64()? as usize,
            pause: Pause::from_name(v["pause"].as_str().unwrap_or("")),
            warnings: v["warnings"].as_bool().unwrap_or(false),
            k: v["k"].as_u64().unwrap_or(1),
            seed: v["round_seed"].as_u64().unwrap_or(1),
        })
    }
}

struct RoundLog {
    /// per thread: returned values in call order
    logs: Vec<Vec<i64>>,
    /// per thread: visits of the pause point (= iterations of the CAS loop)
    visits: Vec<u64>,
    panics: Vec<String>,
}

/// Runs one round: `threads` OS threads, each `calls` calls on one fresh generator.
fn run_round(cfg: &RoundCfg, sh: &Shared) -> RoundLog {
    sh.reads.store(0, Ordering::SeqCst);
    sh.k.store(cfg.k, Ordering::SeqCst);
    sh.seed.store(cfg.seed, Ordering::SeqCst);
    sh.pause.store(cfg.pause as u8, Ordering::SeqCst);
    let generator = if cfg.warnings { MonotonicTimestampGenerator::new() } else { MonotonicTimestampGenerator::new().without_warnings() };
    let generator: &dyn TimestampGenerator = &generator;
    let barrier = Barrier::new(cfg.threads);
    let results: Vec<(Vec<i64>, u64, Option<String>)> = std::thread::scope(|s| {
        let hs: Vec<_> = (0..cfg.threads)
            .map(|t| {
                let barrier = &barrier;
                let calls = cfg.calls;
                let seed = cfg.seed;
                s.spawn(move || {
                    TL.with(|c| c.set((mix(seed ^ (t as u64 + 1).wrapping_mul(0xa076_1d64_78bd_642f)) | 1, 0)));
                    let mut log = Vec::with_capacity(calls);
                    barrier.wait();
                    let r = fw::catch(|| {
                        for _ in 0..calls {
                            log.push(generator.next_timestamp());
                        }
                    });
                    let visits = TL.with(|c| c.get().1);
                    (log, visits, r.err())
                })
            })
            .collect();
        hs.into_iter().map(|h| h.join().expect("C18 worker thread")).collect()
    });
    let mut out = RoundLog { logs: Vec::new(), visits: Vec::new(), panics: Vec::new() };
    for (l, v, p) in results {
        out.logs.push(l);
        out.visits.push(v);
        if let Some(p) = p {
            out.panics.push(p);
        }
    }
    out
}

struct Verdict {
    /// pairs adjacent in the global order that belong to different threads
    owner_switches: u64,
    cas_retries: u64,
    order_hash: u64,
}

/// The offline monitor over the per-thread logs of one round.
fn monitor(o: &mut Outcome, cfg: &RoundCfg, log: &RoundLog) -> Verdict {
    let mode = cfg.mode.name();
    let replay = cfg.to_json();
    for p in &log.panics {
        o.violation(
            format!("next_timestamp:panic:{mode}"),
            format!("next_timestamp panicked in clock mode {mode} ({} threads): {p}", cfg.threads),
            replay.clone(),
        );
    }
    // (1) every thread's own sequence strictly increases
    let mut all_sorted = true;
    for (t, l) in log.logs.iter().enumerate() {
        if let Some(i) = l.windows(2).position(|w| w[0] >= w[1]) {
            all_sorted = false;
            o.violation(
                format!("next_timestamp:not-increasing-in-thread:{mode}"),
                format!(
                    "clock mode {mode}, {} threads x {} calls, pause {}: thread {t} got {} at its call #{i} and then {} at call #{} (not strictly greater)",
                    cfg.threads,
                    cfg.calls,
                    cfg.pause.name(),
                    l[i],
                    l[i + 1],
                    i + 1
                ),
                replay.clone(),
            );
        }
    }
    // (2) global order (value, thread): k-way merge when every log is sorted, full sort otherwise
    let total: usize = log.logs.iter().map(|l| l.len()).sum();
    let mut merged: Vec<(i64, u16)> = Vec::with_capacity(total);
    if all_sorted {
        let mut idx = vec![0usize; log.logs.len()];
        loop {
            let mut best: Option<(i64, usize)> = None;
            for (t, l) in log.logs.iter().enumerate() {
                if let Some(&v) = l.get(idx[t]) {
                    if best.is_none_or(|(bv, _)| v < bv) {
                        best = Some((v, t));
                    }
                }
            }
            let Some((v, t)) = best else { break };
            // run of this thread up to the smallest head of the others
            let limit = log
                .logs
                .iter()
                .enumerate()
                .filter(|(u, _)| *u != t)
                .filter_map(|(u, l)| l.get(idx[u]).copied())
                .min();
            let l = &log.logs[t];
            let mut i = idx[t];
            merged.push((v, t as u16));
            i += 1;
            while i < l.len() && limit.is_none_or(|m| l[i] < m) {
                merged.push((l[i], t as u16));
                i += 1;
            }
            idx[t] = i;
        }
    } else {
        for (t, l) in log.logs.iter().enumerate() {
            merged.extend(l.iter().map(|v| (*v, t as u16)));
        }
        merged.sort_unstable();
    }
    let mut owner_switches = 0u64;
    let mut order_hash = 0xcbf29ce484222325u64;
    for w in merged.windows(2) {
        if w[0].0 == w[1].0 {
            let sig = if w[0].1 == w[1].1 { "duplicate-in-thread" } else { "duplicate-across-threads" };
            o.violation(
                format!("next_timestamp:{sig}:{mode}"),
                format!(
                    "clock mode {mode}, {} threads x {} calls, pause {}: timestamp {} was handed out twice (threads {} and {})",
                    cfg.threads,
                    cfg.calls,
                    cfg.pause.name(),
                    w[0].0,
                    w[0].1,
                    w[1].1
                ),
                replay.clone(),
            );
        }
        if w[0].1 != w[1].1 {
            owner_switches += 1;
        }
        order_hash = (order_hash ^ w[1].1 as u64).wrapping_mul(0x100000001b3);
    }
    let visits: u64 = log.visits.iter().sum();
    Verdict { owner_switches, cas_retries: visits.saturating_sub(total as u64), order_hash }
}

fn evaluate_round(o: &mut Outcome, cfg: &RoundCfg, sh: &Shared) {
    let log = run_round(cfg, sh);
    let v = monitor(o, cfg, &log);
    let calls: u64 = log.logs.iter().map(|l| l.len() as u64).sum();
    // one case = one observed history; its identity is the owner sequence of the global order
    let key = fw::hash64(format!("{}:{}:{}:{:x}", cfg.mode.name(), cfg.threads, cfg.calls, v.order_hash).as_bytes());
    o.case(key, v.owner_switches > 0);
    o.class(&format!("mode:{}", cfg.mode.name()));
    o.class(&format!("pause:{}", cfg.pause.name()));
    o.class(&format!("threads:{}", cfg.threads));
    o.class(if cfg.warnings { "generator:default-warnings" } else { "generator:without-warnings" });
    if v.cas_retries > 0 {
        o.class("contention:cas-retry");
    }
    if v.owner_switches > 0 {
        o.class("contention:interleaved-order");
    }
    o.note_add("calls_total", calls);
    o.note_add("cas_retries_total", v.cas_retries);
    o.note_add("owner_switches_total", v.owner_switches);
    o.note_add(&format!("calls[{}]", cfg.mode.name()), calls);
    o.note_add(&format!("cas_retries[{}]", cfg.mode.name()), v.cas_retries);
    o.note_add(&format!("owner_switches[{}]", cfg.mode.name()), v.owner_switches);
    if o.want_sample() && o.samples.iter().all(|s| s["round"]["mode"] != json!(cfg.mode.name())) && matches!(cfg.mode, Mode::Real | Mode::Stalled | Mode::Back1s | Mode::Mixed) {
        o.sample(json!({
            "round": cfg.to_json(),
            "thread0_first_values": log.logs[0].iter().take(4).collect::<Vec<_>>(),
            "thread1_first_values": log.logs.get(1).map(|l| l.iter().take(4).copied().collect::<Vec<_>>()),
            "cas_retries": v.cas_retries,
            "owner_switches_in_global_order": v.owner_switches,
        }));
    }
}

fn plan_rounds(ctx: &Ctx, mode: Mode, rng: &mut Rng) -> Vec<RoundCfg> {
    let mut rounds = Vec::new();
    let mk = |rng: &mut Rng, threads: usize, calls: usize, pause: Pause| {
        let k = match mode {
            Mode::Repeat => *rng.pick(&[2u64, 3, 7, 50, 1000]),
            Mode::Back1us | Mode::Back1s | Mode::Back1h => *rng.pick(&[1u64, 2, 5, 17, 100]),
            Mode::Mixed => *rng.pick(&[1u64, 1, 3, 40]),
            _ => 1,
        };
        RoundCfg { mode, threads, calls, pause, warnings: rng.chance(1, 3), k, seed: rng.u64() | 1 }
    };
    if ctx.miri() {
        // tiny: 3 threads x 30 calls, yields only (never sleeps)
        let n = ctx.vol(2, 4) as usize;
        for i in 0..n {
            rounds.push(mk(rng, 3, 30, if i % 2 == 0 { Pause::Heavy } else { Pause::Yield }));
        }
        return rounds;
    }
    // long rounds: natural contention at full speed and with a sparse pause policy
    let long_calls = ctx.vol(60_000, 300_000) as usize;
    let long_rounds = if ctx.quick() { 2 } else { 3 };
    for i in 0..long_rounds {
        let threads = if i == 0 { 16 } else { rng.usize(2, 16) };
        let pause = *rng.pick(&[Pause::Count, Pause::Yield, Pause::YieldSleep]);
        rounds.push(mk(rng, threads, long_calls.clamp(10_000, 1_000_000), pause));
    }
    // medium rounds over the thread-count range
    let medium = ctx.vol(4, 20);
    for _ in 0..medium {
        let threads = *rng.pick(&[2usize, 3, 4, 6, 8, 12, 16]);
        let pause = *rng.pick(&[Pause::Count, Pause::Yield, Pause::YieldSleep, Pause::YieldSleep]);
        rounds.push(mk(rng, threads, ctx.vol(10_000, 30_000).clamp(10_000, 1_000_000) as usize, pause));
    }
    // many short, heavily perturbed rounds: many different histories around the start of a generator
    let short = ctx.vol(60, 1000);
    for _ in 0..short {
        let threads = rng.usize(2, 16);
        let pause = *rng.pick(&[Pause::Heavy, Pause::Heavy, Pause::Yield, Pause::Count]);
        let calls = rng.usize(20, 400);
        rounds.push(mk(rng, threads, calls, pause));
    }
    rounds
}

fn replay(ctx: &Ctx, path: &str) -> Outcome {
    let mut o = Outcome::new();
    let v: Value = serde_json::from_str(&std::fs::read_to_string(path).expect("replay file")).expect("json");
    let Some(cfg) = RoundCfg::from_json(&v["replay"]) else {
        o.inconclusive("unrecognised replay file");
        return o;
    };
    // the schedule itself is not reproducible; the same round configuration is repeated
    let sh = Arc::new(Shared { reads: AtomicU64::new(0), k: AtomicU64::new(1), seed: AtomicU64::new(1), pause: AtomicU8::new(0), no_sleep: ctx.miri() });
    install_hooks(cfg.mode, &sh);
    for i in 0..20u64 {
        let mut c = cfg.clone();
        c.seed = cfg.seed.wrapping_add(i * 2);
        evaluate_round(&mut o, &c, &sh);
        if !o.violations.is_empty() {
            break;
        }
    }
    clear_hooks();
    o
}

/// Part "a" (socket-free); public so that the dispatcher can combine it with part "b".
pub fn run_a(ctx: &Ctx) -> Outcome {
    if let Some(p) = &ctx.replay {
        return replay(ctx, p);
    }
    let mut o = Outcome::new();
    let only_mode = ctx.extra.get("mode").and_then(|m| Mode::from_name(m));
    for (mi, mode) in MODES.iter().copied().enumerate() {
        if only_mode.is_some_and(|m| m != mode) {
            continue;
        }
        let mut rng = ctx.rng(1800 + mi as u64);
        let sh = Arc::new(Shared { reads: AtomicU64::new(0), k: AtomicU64::new(1), seed: AtomicU64::new(1), pause: AtomicU8::new(0), no_sleep: ctx.miri() });
        // hooks are process-global: installed once per clock mode, modes run one after another
        install_hooks(mode, &sh);
        for mut cfg in plan_rounds(ctx, mode, &mut rng) {
            // development aid for sensitivity measurements: --threads=N forces the thread count
            if let Some(t) = ctx.extra.get("threads").and_then(|t| t.parse::<usize>().ok()) {
                cfg.threads = t.clamp(1, 64);
            }
            evaluate_round(&mut o, &cfg, &sh);
        }
        clear_hooks();
        o.require_class(&format!("mode:{}", mode.name()));
    }
    o.require_class("contention:cas-retry");
    o.require_class("contention:interleaved-order");
    if !ctx.miri() && !ctx.extra.contains_key("threads") {
        o.require_class("threads:2");
        o.require_class("threads:16");
    }
    o.sample(json!({"clock": "stalled", "every_reading_us": T0_US, "expected": "values T0, T0+1, T0+2, ... each handed to exactly one caller"}));
    o.sample(json!({"clock": "before-epoch", "every_reading": "Err", "expected": "values 1, 2, 3, ... each handed to exactly one caller"}));
    o.exhaustive = Some(false);
    o.note("interleavings", json!("sampled by the OS scheduler / Miri's scheduler plus the seeded pause policy; not enumerated"));
    o
}

pub fn run(ctx: &Ctx) -> Outcome {
    match ctx.part.as_deref() {
        None | Some("a") => run_a(ctx),
        Some("b") => crate::checks::session_e2e::run_c18_b(ctx),
        Some(p) => {
            let mut o = Outcome::new();
            o.inconclusive(format!("C18 has no part {p:?}"));
            o
        }
    }
}
