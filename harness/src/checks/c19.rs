//! C19 — the metadata hand-off channel (`merge_channel`) loses and duplicates nothing.
//!
//! Part A  — deterministic schedule enumeration on ONE thread, no runtime, counting waker:
//!   A1: every sequence (up to a length bound) of the poll-granularity steps
//!       {merge(id), retract/no-op modify, drop sender, start recv, poll recv, cancel recv,
//!        drop receiver};
//!   A2: the same steps, but additionally every pause point inside the real code (the four race
//!       windows) is a scheduling point at which the OTHER party's steps are run re-entrantly —
//!       i.e. all sequentially consistent two-thread interleavings whose context switches fall
//!       on the pause points, up to a (smaller) length bound.
//! Part B  — real threads (std::thread, hand-rolled block_on with a park/unpark waker), seeded
//!   delays at the pause points, offline checker over per-thread logs, hang rule.
//! Part C  — (end-to-end through a Session) is built elsewhere.
//!
//! The oracle is a model written from the property statement: values are unique ids appended
//! to a Vec, so (received vectors, in order) must spell exactly the ids that were merged and
//! not retracted, each once; `None` only after the sender is gone and the slot is empty;
//! `modify` is refused iff the receiver was gone before the call; a consumer whose last poll
//! returned Pending must have been woken whenever a value is pending / the sender is gone.
use crate::fw::{self, Ctx, Outcome, Rng};
use scylla::verif_hooks as hooks;
use scylla::verif_hooks::merge_channel::{Receiver, Sender, channel};
use serde_json::{Value, json};
use std::cell::{Cell, RefCell};
use std::collections::HashSet;
use std::future::Future;
use std::pin::Pin;
use std::sync::atomic::{AtomicBool, AtomicU8, AtomicU64, AtomicUsize, Ordering};
use std::sync::{Arc, Mutex, OnceLock};
use std::task::{Context, Poll, Wake, Waker};
use std::time::Duration;

type Val = Vec<u32>;
type RecvFut = Pin<Box<dyn Future<Output = Option<Val>>>>;

const SITES: [&str; 4] = [
    "mc.modify.after_unlock",
    "mc.sender_drop.before_notify",
    "mc.recv.after_enable",
    "mc.recv.after_take",
];
const SITE_MODIFY: u8 = 0;
const SITE_SDROP: u8 = 1;
const SITE_ENABLE: u8 = 2;
const SITE_TAKE: u8 = 3;

fn site_idx(site: &str) -> Option<u8> {
    SITES.iter().position(|s| *s == site).map(|i| i as u8)
}

// ---------------------------------------------------------------------------------------------
// Pause-point dispatch: ONE global callback, behaviour selected per thread.
// ---------------------------------------------------------------------------------------------

thread_local! {
    /// 0: this thread ignores pause points; 1: Part A2 run in progress; 2: Part B actor thread.
    static PAUSE_MODE: Cell<u8> = const { Cell::new(0) };
    static A_RUN: Cell<*const ARun> = const { Cell::new(std::ptr::null()) };
    static B_THREAD: RefCell<Option<BThread>> = const { RefCell::new(None) };
}

fn install_pause() {
    static ONCE: OnceLock<()> = OnceLock::new();
    ONCE.get_or_init(|| {
        hooks::set_pause(Some(Arc::new(|site: &'static str| match PAUSE_MODE.with(|m| m.get()) {
            1 => a_site(site),
            2 => b_site(site),
            _ => {}
        })));
    });
}

// ---------------------------------------------------------------------------------------------
// Part A
// ---------------------------------------------------------------------------------------------

#[derive(Clone, Copy, PartialEq, Eq, Debug)]
#[repr(u8)]
enum Step {
    /// modify: append a fresh unique id
    M = 0,
    /// modify that leaves the slot None (retracts a pending value / no-op on an empty slot)
    R = 1,
    /// drop the sender
    DS = 2,
    /// start a recv (create the future, not polled)
    S = 3,
    /// poll the recv future once
    P = 4,
    /// cancel the recv (drop the future)
    C = 5,
    /// drop the receiver
    DR = 6,
}
const STEP_NAMES: [&str; 7] = ["merge", "retract", "drop_sender", "start_recv", "poll", "cancel", "drop_receiver"];
const T_OPEN: u8 = 10; // + site index: nested steps at that pause point follow
const T_CLOSE: u8 = 20;

fn render_trace(t: &[u8]) -> String {
    let mut s = String::new();
    for b in t {
        match *b {
            x if x < 7 => {
                if !s.is_empty() && !s.ends_with('{') {
                    s.push(' ');
                }
                s.push_str(STEP_NAMES[x as usize]);
            }
            x if (T_OPEN..T_OPEN + 4).contains(&x) => {
                s.push_str(&format!(" @{}{{", SITES[(x - T_OPEN) as usize]));
            }
            _ => s.push('}'),
        }
    }
    s
}

struct CountWaker(Arc<AtomicUsize>);
impl Wake for CountWaker {
    fn wake(self: Arc<Self>) {
        self.0.fetch_add(1, Ordering::SeqCst);
    }
    fn wake_by_ref(self: &Arc<Self>) {
        self.0.fetch_add(1, Ordering::SeqCst);
    }
}

/// The consumer side: the receiver lives behind a raw pointer because the (type-erased) recv
/// future borrows it mutably for as long as it exists.
struct Consumer {
    rx: *mut Receiver<Val>,
    fut: Option<RecvFut>,
    waker: Option<Waker>,
}
impl Consumer {
    fn drop_receiver(&mut self) {
        self.fut = None;
        if !self.rx.is_null() {
            // SAFETY: `rx` came from Box::into_raw and the only borrower (the future) is gone.
            unsafe { drop(Box::from_raw(self.rx)) };
            self.rx = std::ptr::null_mut();
        }
    }
}
impl Drop for Consumer {
    fn drop(&mut self) {
        self.drop_receiver();
    }
}

/// Reference model, written from the property statement.
#[derive(Default)]
struct Model {
    /// what the slot must hold
    slot: Option<Val>,
    /// ids handed to the consumer so far, in order
    delivered: Val,
    merged: Val,
    retracted: Val,
    next_id: u32,
    tx_drop_started: bool,
    tx_drop_done: bool,
    rx_dropped: bool,
    nones: u32,
    /// the live future's last poll returned Pending
    last_pending: bool,
    /// the live future has been polled at least once
    polled: bool,
    wakes_at_poll_start: usize,
    // bookkeeping for coverage classes
    cancelled_woken: bool,
    cancelled_any: bool,
}

const CLASS_NAMES: [&str; 18] = [
    "A:parked-recv-woken-by-merge",
    "A:parked-recv-woken-by-sender-drop",
    "A:cancel-of-woken-recv",
    "A:value-received-after-cancel-of-woken-recv",
    "A:value-received-after-sender-drop",
    "A:none-after-sender-drop",
    "A:retract-of-pending-value",
    "A:merge-into-pending-value",
    "A:modify-refused-after-receiver-drop",
    "A:poll-pending",
    "A:restart-after-cancel",
    "A:woken-but-pending-again",
    "A2:merge-inside-recv-window",
    "A2:sender-drop-inside-recv-window",
    "A2:last-value-race(merge+drop between take and flag check, value delivered)",
    "A2:consumer-step-inside-modify-window",
    "A2:consumer-step-inside-sender-drop-window",
    "A:value-received",
];

/// Depth-first "odometer" over choice vectors: replays a prefix of recorded choices and
/// extends it with first choices; `advance` moves to the next unexplored vector.
struct Odo {
    stack: Vec<(u8, u8)>,
    pos: usize,
    fixed: usize,
    cut_at: Option<usize>,
    cut: bool,
    stop_all: bool,
    nondet: bool,
}
impl Odo {
    fn new(prefix: Vec<(u8, u8)>, fixed: usize, cut_at: Option<usize>) -> Self {
        Odo { stack: prefix, pos: 0, fixed, cut_at, cut: false, stop_all: false, nondet: false }
    }
    fn begin(&mut self) {
        self.pos = 0;
        self.cut = false;
        self.stop_all = false;
    }
    /// `n >= 1` options; option 0 always means "stop / resume".
    fn choose(&mut self, n: usize) -> usize {
        if self.stop_all {
            return 0;
        }
        if self.pos < self.stack.len() {
            let (c, m) = self.stack[self.pos];
            if m as usize != n {
                self.nondet = true;
                self.stop_all = true;
                return 0;
            }
            self.pos += 1;
            return c as usize;
        }
        if let Some(k) = self.cut_at {
            if self.stack.len() >= k {
                self.cut = true;
                self.stop_all = true;
                return 0;
            }
        }
        self.stack.push((0, n as u8));
        self.pos += 1;
        0
    }
    fn advance(&mut self) -> bool {
        while self.stack.len() > self.fixed {
            let last = self.stack.last_mut().unwrap();
            if last.0 + 1 < last.1 {
                last.0 += 1;
                return true;
            }
            self.stack.pop();
        }
        false
    }
}

struct ARun {
    tx: RefCell<Option<Sender<Val>>>,
    cons: RefCell<Consumer>,
    model: RefCell<Model>,
    odo: RefCell<Odo>,
    trace: RefCell<Vec<u8>>,
    steps: Cell<usize>,
    max_len: usize,
    nested: bool,
    depth: Cell<u8>,
    wakes: Arc<AtomicUsize>,
    fresh_waker: bool,
    viol: RefCell<Vec<(String, String)>>,
    classes: Cell<u32>,
    // what happened inside the current outer poll (A2 classes)
    nested_m_at_take: Cell<bool>,
    nested_ds_at_take: Cell<bool>,
}

impl ARun {
    fn new(odo: Odo, max_len: usize, nested: bool, fresh_waker: bool) -> Self {
        let (tx, rx) = channel::<Val>();
        ARun {
            tx: RefCell::new(Some(tx)),
            cons: RefCell::new(Consumer { rx: Box::into_raw(Box::new(rx)), fut: None, waker: None }),
            model: RefCell::new(Model::default()),
            odo: RefCell::new(odo),
            trace: RefCell::new(Vec::with_capacity(24)),
            steps: Cell::new(0),
            max_len,
            nested,
            depth: Cell::new(0),
            wakes: Arc::new(AtomicUsize::new(0)),
            fresh_waker,
            viol: RefCell::new(Vec::new()),
            classes: Cell::new(0),
            nested_m_at_take: Cell::new(false),
            nested_ds_at_take: Cell::new(false),
        }
    }
    fn class(&self, i: usize) {
        self.classes.set(self.classes.get() | (1 << i));
    }
    fn fail(&self, sig: &str, msg: String) {
        self.viol.borrow_mut().push((sig.to_owned(), msg));
        self.odo.borrow_mut().stop_all = true;
    }
    fn failed(&self) -> bool {
        !self.viol.borrow().is_empty()
    }
    fn woken_since_poll(&self) -> bool {
        self.wakes.load(Ordering::SeqCst) > self.model.borrow().wakes_at_poll_start
    }
    fn enabled_producer(&self, out: &mut Vec<Step>) {
        if self.tx.try_borrow().map(|t| t.is_some()).unwrap_or(false) {
            out.extend([Step::M, Step::R, Step::DS]);
        }
    }
    fn enabled_consumer(&self, out: &mut Vec<Step>) {
        if let Ok(c) = self.cons.try_borrow() {
            if c.rx.is_null() {
                return;
            }
            if c.fut.is_some() {
                out.extend([Step::P, Step::C]);
            } else {
                out.extend([Step::S, Step::DR]);
            }
        }
    }

    fn new_waker(&self) -> Waker {
        Waker::from(Arc::new(CountWaker(self.wakes.clone())))
    }

    fn exec(&self, step: Step) {
        self.steps.set(self.steps.get() + 1);
        self.trace.borrow_mut().push(step as u8);
        let nested_now = self.depth.get() > 0;
        match step {
            Step::M | Step::R => {
                let (id, rx_dropped_before, slot_full_before) = {
                    let mut m = self.model.borrow_mut();
                    let id = m.next_id;
                    if step == Step::M {
                        m.next_id += 1;
                    }
                    (id, m.rx_dropped, m.slot.is_some())
                };
                let wakes0 = self.wakes.load(Ordering::SeqCst);
                let parked = {
                    // consumer state can only be inspected when this is not a nested step of a poll
                    self.cons.try_borrow().map(|c| c.fut.is_some()).unwrap_or(false) && self.model.borrow().last_pending
                };
                let mut called = 0u32;
                let res = {
                    let mut txb = self.tx.borrow_mut();
                    let tx = txb.as_mut().expect("sender alive");
                    tx.modify(|slot| {
                        called += 1;
                        let mut m = self.model.borrow_mut();
                        if *slot != m.slot {
                            let msg = format!(
                                "the merge closure found {:?} in the slot, the model says {:?} (ids merged so far {:?}, delivered {:?}, retracted {:?})",
                                slot, m.slot, m.merged, m.delivered, m.retracted
                            );
                            drop(m);
                            self.fail("modify:slot-content-mismatch", msg);
                            return;
                        }
                        if step == Step::M {
                            slot.get_or_insert_default().push(id);
                            m.slot.get_or_insert_default().push(id);
                            m.merged.push(id);
                        } else {
                            if let Some(v) = slot.take() {
                                m.retracted.extend(v);
                            }
                            m.slot = None;
                        }
                    })
                };
                if self.failed() {
                    return;
                }
                match (res.is_err(), rx_dropped_before) {
                    (true, false) => self.fail("modify:refused-while-receiver-alive", format!("modify returned Err although the receiver had not been dropped before the call")),
                    (false, true) => self.fail("modify:accepted-after-receiver-drop", format!("modify returned Ok although the receiver was dropped before the call")),
                    _ => {}
                }
                if res.is_err() && called != 0 {
                    self.fail("modify:closure-applied-on-error", format!("modify returned Err but applied the closure"));
                }
                if res.is_ok() && called != 1 {
                    self.fail("modify:closure-call-count", format!("modify returned Ok but applied the closure {called} times"));
                }
                if res.is_err() {
                    self.class(8);
                } else if step == Step::M {
                    if slot_full_before {
                        self.class(7);
                    }
                    if parked && self.wakes.load(Ordering::SeqCst) > wakes0 {
                        self.class(0);
                    }
                } else if slot_full_before {
                    self.class(6);
                }
                if nested_now && res.is_ok() && step == Step::M {
                    self.class(12);
                }
            }
            Step::DS => {
                let tx = self.tx.borrow_mut().take().expect("sender alive");
                let wakes0 = self.wakes.load(Ordering::SeqCst);
                let parked = self.cons.try_borrow().map(|c| c.fut.is_some()).unwrap_or(false) && self.model.borrow().last_pending;
                self.model.borrow_mut().tx_drop_started = true;
                drop(tx);
                self.model.borrow_mut().tx_drop_done = true;
                if parked && self.wakes.load(Ordering::SeqCst) > wakes0 {
                    self.class(1);
                }
                if nested_now {
                    self.class(13);
                }
            }
            Step::S => {
                let mut c = self.cons.borrow_mut();
                // SAFETY: the receiver is alive (rx non-null) and no other borrow of it exists:
                // the previous future, its only borrower, has been dropped (fut is None).
                let rx: &'static mut Receiver<Val> = unsafe { &mut *c.rx };
                c.fut = Some(Box::pin(rx.recv()));
                if c.waker.is_none() || self.fresh_waker {
                    c.waker = Some(self.new_waker());
                }
                let mut m = self.model.borrow_mut();
                m.last_pending = false;
                m.polled = false;
                if m.cancelled_any {
                    self.class(10);
                }
            }
            Step::P => {
                let mut c = self.cons.borrow_mut();
                let waker = c.waker.clone().expect("waker");
                let was_woken = {
                    let mut m = self.model.borrow_mut();
                    let w = m.polled && m.last_pending && self.wakes.load(Ordering::SeqCst) > m.wakes_at_poll_start;
                    m.wakes_at_poll_start = self.wakes.load(Ordering::SeqCst);
                    m.polled = true;
                    w
                };
                self.nested_m_at_take.set(false);
                self.nested_ds_at_take.set(false);
                let res = {
                    let fut = c.fut.as_mut().expect("future alive");
                    let mut cx = Context::from_waker(&waker);
                    fut.as_mut().poll(&mut cx)
                };
                if self.failed() {
                    return;
                }
                let mut m = self.model.borrow_mut();
                match res {
                    Poll::Pending => {
                        m.last_pending = true;
                        self.class(9);
                        if was_woken {
                            self.class(11);
                        }
                    }
                    Poll::Ready(r) => {
                        c.fut = None;
                        m.last_pending = false;
                        match r {
                            Some(v) => {
                                if m.slot.as_ref() == Some(&v) && !v.is_empty() {
                                    m.delivered.extend(v);
                                    m.slot = None;
                                    self.class(17);
                                    if m.tx_drop_started {
                                        self.class(4);
                                    }
                                    if m.cancelled_woken {
                                        self.class(3);
                                    }
                                    if self.nested_m_at_take.get() && self.nested_ds_at_take.get() {
                                        self.class(14);
                                    }
                                } else {
                                    let dup = v.iter().any(|x| m.delivered.contains(x));
                                    let phantom = v.iter().any(|x| !m.merged.contains(x) || m.retracted.contains(x));
                                    let sig = if dup {
                                        "recv:duplicate"
                                    } else if phantom {
                                        "recv:never-merged-or-retracted"
                                    } else {
                                        "recv:wrong-value"
                                    };
                                    let msg = format!("recv returned Some({:?}) but the pending value is {:?} (already delivered {:?}, retracted {:?})", v, m.slot, m.delivered, m.retracted);
                                    drop(m);
                                    self.fail(sig, msg);
                                    return;
                                }
                            }
                            None => {
                                if !m.tx_drop_started {
                                    drop(m);
                                    self.fail("recv:none-while-sender-alive", "recv returned None although the sender has not been dropped".into());
                                    return;
                                }
                                if m.slot.is_some() {
                                    let msg = format!("recv returned None while {:?} is still pending in the slot (sender dropped, last value not taken)", m.slot);
                                    drop(m);
                                    self.fail("recv:none-before-last-value", msg);
                                    return;
                                }
                                m.nones += 1;
                                self.class(5);
                            }
                        }
                    }
                }
            }
            Step::C => {
                let mut c = self.cons.borrow_mut();
                let woken = self.woken_since_poll();
                c.fut = None;
                let mut m = self.model.borrow_mut();
                if m.last_pending && woken {
                    self.class(2);
                    if m.slot.is_some() {
                        m.cancelled_woken = true;
                    }
                }
                m.cancelled_any = true;
                m.last_pending = false;
                m.polled = false;
            }
            Step::DR => {
                self.cons.borrow_mut().drop_receiver();
                self.model.borrow_mut().rx_dropped = true;
            }
        }
    }

    /// "No lost wake-up", stated without a clock: nothing is executing now, so a consumer whose
    /// last poll returned Pending can only ever be resumed by a wake that has ALREADY been
    /// delivered. If a value is pending (or the sender is gone) and no wake arrived since that
    /// poll began, the wake-up is lost.
    fn check_obligations(&self, when: &str) {
        if self.failed() {
            return;
        }
        let c = self.cons.borrow();
        let m = self.model.borrow();
        if c.fut.is_some() && m.last_pending && (m.slot.is_some() || m.tx_drop_done) && !self.woken_since_poll() {
            let msg = format!(
                "{when}: the recv future's last poll returned Pending and its waker has not been woken since, yet {} — nothing will ever resume the consumer",
                if m.slot.is_some() { format!("{:?} is pending in the slot", m.slot) } else { "the sender has been dropped".to_string() }
            );
            let sig = if m.slot.is_some() { "lost-wakeup:value-pending" } else { "lost-wakeup:sender-dropped" };
            drop(m);
            drop(c);
            self.fail(sig, msg);
        }
    }

    /// The consumer's drain: start a recv if none is live, poll a fresh future once, afterwards
    /// poll only when woken. Stops at quiescence (Pending and not woken) or after two `None`s.
    fn drain(&self) {
        self.depth.set(1); // pause points are not scheduling points during the drain
        let mut polls = 0;
        loop {
            if self.failed() {
                break;
            }
            let (alive, has_fut) = {
                let c = self.cons.borrow();
                (!c.rx.is_null(), c.fut.is_some())
            };
            if !alive {
                break;
            }
            if !has_fut {
                if self.model.borrow().nones >= 2 {
                    break;
                }
                self.exec_drain(Step::S);
                continue;
            }
            let need = {
                let m = self.model.borrow();
                !m.polled || self.wakes.load(Ordering::SeqCst) > m.wakes_at_poll_start
            };
            if !need {
                break;
            }
            self.exec_drain(Step::P);
            self.check_obligations("during the final drain");
            polls += 1;
            if polls > 40 {
                self.viol.borrow_mut().push(("!inconclusive".into(), "drain did not reach quiescence within 40 polls".into()));
                break;
            }
        }
        if self.failed() {
            return;
        }
        let c = self.cons.borrow();
        let m = self.model.borrow();
        if !c.rx.is_null() && m.slot.is_some() {
            let msg = format!("at quiescence {:?} was merged but never received (delivered {:?})", m.slot, m.delivered);
            drop(m);
            drop(c);
            self.fail("quiescence:undelivered", msg);
        }
    }
    fn exec_drain(&self, s: Step) {
        let keep = self.steps.get();
        self.exec(s);
        self.trace.borrow_mut().pop();
        self.steps.set(keep);
    }
}

/// Pause point reached inside the real code during a Part A2 run: let the other party run.
fn a_site(site: &'static str) {
    let p = A_RUN.with(|r| r.get());
    if p.is_null() {
        return;
    }
    // SAFETY: A_RUN points at the ARun owned by `run_schedule` further up this very stack.
    let run: &ARun = unsafe { &*p };
    if !run.nested || run.depth.get() > 0 {
        return;
    }
    let Some(si) = site_idx(site) else { return };
    let outer_is_producer = si == SITE_MODIFY || si == SITE_SDROP;
    run.depth.set(1);
    let mut opened = false;
    let mut opts: Vec<Step> = Vec::with_capacity(4);
    loop {
        if run.steps.get() >= run.max_len || run.failed() {
            break;
        }
        opts.clear();
        if outer_is_producer {
            run.enabled_consumer(&mut opts);
        } else {
            run.enabled_producer(&mut opts);
        }
        if opts.is_empty() {
            break;
        }
        let c = run.odo.borrow_mut().choose(opts.len() + 1);
        if c == 0 {
            break;
        }
        if !opened {
            run.trace.borrow_mut().push(T_OPEN + si);
            opened = true;
        }
        let st = opts[c - 1];
        if si == SITE_TAKE {
            if st == Step::M {
                run.nested_m_at_take.set(true);
            }
            if st == Step::DS {
                run.nested_ds_at_take.set(true);
            }
        }
        if si == SITE_MODIFY {
            run.class(15);
        }
        if si == SITE_SDROP {
            run.class(16);
        }
        run.exec(st);
    }
    if opened {
        run.trace.borrow_mut().push(T_CLOSE);
    }
    run.depth.set(0);
}

struct RunReport {
    cut: bool,
    nondet: bool,
    viol: Vec<(String, String)>,
    classes: u32,
    trace: Vec<u8>,
    choices: Vec<(u8, u8)>,
    merged: usize,
    odo: Odo,
}

/// Executes ONE schedule (the one the odometer currently denotes) against a fresh channel.
fn run_schedule(odo: Odo, max_len: usize, nested: bool, fresh_waker: bool) -> RunReport {
    let run = ARun::new(odo, max_len, nested, fresh_waker);
    run.odo.borrow_mut().begin();
    if nested {
        PAUSE_MODE.with(|m| m.set(1));
        A_RUN.with(|r| r.set(&run as *const ARun));
    }
    let mut opts: Vec<Step> = Vec::with_capacity(8);
    loop {
        if run.failed() || run.steps.get() >= max_len {
            break;
        }
        opts.clear();
        run.enabled_producer(&mut opts);
        run.enabled_consumer(&mut opts);
        if opts.is_empty() {
            break;
        }
        let c = run.odo.borrow_mut().choose(opts.len() + 1);
        if c == 0 {
            break;
        }
        run.exec(opts[c - 1]);
        run.check_obligations("after a step");
    }
    let cut = run.odo.borrow().cut;
    if !cut && !run.failed() {
        run.drain();
    }
    if nested {
        A_RUN.with(|r| r.set(std::ptr::null()));
        PAUSE_MODE.with(|m| m.set(0));
    }
    let ARun { tx, cons, model, odo, trace, viol, classes, .. } = run;
    drop(cons);
    drop(tx);
    let odo = odo.into_inner();
    let model = model.into_inner();
    RunReport {
        cut,
        nondet: odo.nondet,
        viol: viol.into_inner(),
        classes: classes.get(),
        trace: trace.into_inner(),
        choices: odo.stack[..odo.pos.min(odo.stack.len())].to_vec(),
        merged: model.merged.len(),
        odo,
    }
}

#[derive(Clone, Copy)]
struct ACfg {
    max_len: usize,
    nested: bool,
    fresh_waker: bool,
}

impl ACfg {
    fn tag(&self) -> &'static str {
        if self.nested { "A2" } else { "A1" }
    }
}

/// (signature, witness length, message, replay) — the shortest witness per signature is reported.
type AViol = (String, usize, String, Value);

fn record_run(o: &mut Outcome, cfg: &ACfg, rep: &RunReport, class_counts: &mut [u64; 18], found: &mut Vec<AViol>) {
    let mut key = Vec::with_capacity(rep.trace.len() + 2);
    key.push(cfg.nested as u8);
    key.extend_from_slice(&rep.trace);
    let has_poll = rep.trace.contains(&(Step::P as u8));
    o.case(fw::hash64(&key), rep.merged > 0 && has_poll);
    for i in 0..18 {
        if rep.classes & (1 << i) != 0 {
            class_counts[i] += 1;
        }
    }
    for (sig, msg) in &rep.viol {
        if sig == "!inconclusive" {
            o.inconclusive(format!("{}: {} [{}]", cfg.tag(), msg, render_trace(&rep.trace)));
            continue;
        }
        let choices: Vec<u8> = rep.choices.iter().map(|c| c.0).collect();
        let signature = format!("{}:{}", cfg.tag(), sig);
        o.note_add(&format!("{}_violating_schedules", cfg.tag()), 1);
        if let Some(f) = found.iter_mut().find(|f| f.0 == signature) {
            if f.1 <= rep.trace.len() {
                continue;
            }
            found.retain(|f| f.0 != signature);
        }
        found.push((
            signature,
            rep.trace.len(),
            format!("schedule [{}] (then the consumer drains): {}", render_trace(&rep.trace), msg),
            json!({"part":"a","nested":cfg.nested,"fresh_waker":cfg.fresh_waker,"max_len":cfg.max_len,
                   "choices": choices, "arity": rep.choices.iter().map(|c| c.1).collect::<Vec<u8>>(),
                   "schedule": render_trace(&rep.trace)}),
        ));
    }
    if rep.nondet {
        o.inconclusive(format!("{}: the channel behaved differently when a schedule prefix was replayed (non-deterministic on one thread?)", cfg.tag()));
    }
}

/// Explores every schedule below `prefix`; returns the number of schedules executed.
fn explore(o: &mut Outcome, cfg: &ACfg, prefix: Vec<(u8, u8)>, class_counts: &mut [u64; 18], found: &mut Vec<AViol>, stop: &AtomicBool, bad: &AtomicU64) -> u64 {
    let fixed = prefix.len();
    let mut odo = Odo::new(prefix, fixed, None);
    let mut n = 0u64;
    loop {
        let rep = run_schedule(odo, cfg.max_len, cfg.nested, cfg.fresh_waker);
        n += 1;
        record_run(o, cfg, &rep, class_counts, found);
        odo = rep.odo;
        // a broken channel fails on a large share of all schedules: no need to list them all
        if !rep.viol.is_empty() && bad.fetch_add(1, Ordering::Relaxed) > 200_000 {
            stop.store(true, Ordering::Relaxed);
        }
        if stop.load(Ordering::Relaxed) || !odo.advance() {
            break;
        }
    }
    n
}

/// Enumerates all schedules for `cfg`, spread over `workers` threads by choice-vector prefix
/// (`workers == 0`: everything on the calling thread — used under Miri).
fn part_a_enumerate(ctx: &Ctx, cfg: ACfg, workers: usize) -> Outcome {
    let mut o = Outcome::new();
    let mut class_counts = [0u64; 18];
    let stop = AtomicBool::new(false);
    let bad = AtomicU64::new(0);
    let mut found: Vec<AViol> = Vec::new();
    let mut total = 0u64;
    if workers == 0 {
        total += explore(&mut o, &cfg, Vec::new(), &mut class_counts, &mut found, &stop, &bad);
    } else {
        // pre-pass: schedules with at most CUT choices are complete here; longer ones are cut
        // and their CUT-long prefixes become work items.
        const CUT: usize = 4;
        let mut items: Vec<Vec<(u8, u8)>> = Vec::new();
        let mut odo = Odo::new(Vec::new(), 0, Some(CUT));
        loop {
            let rep = run_schedule(odo, cfg.max_len, cfg.nested, cfg.fresh_waker);
            if rep.cut {
                items.push(rep.odo.stack.clone());
            } else {
                total += 1;
                record_run(&mut o, &cfg, &rep, &mut class_counts, &mut found);
            }
            odo = rep.odo;
            if !odo.advance() {
                break;
            }
        }
        let next = AtomicUsize::new(0);
        let counts = Mutex::new((0u64, [0u64; 18], Vec::<AViol>::new()));
        let sub = fw::par(ctx, workers, |_w, _rng| {
            let mut o = Outcome::new();
            let mut cc = [0u64; 18];
            let mut fnd: Vec<AViol> = Vec::new();
            let mut n = 0;
            loop {
                let i = next.fetch_add(1, Ordering::Relaxed);
                if i >= items.len() || stop.load(Ordering::Relaxed) {
                    break;
                }
                n += explore(&mut o, &cfg, items[i].clone(), &mut cc, &mut fnd, &stop, &bad);
            }
            let mut g = counts.lock().unwrap();
            g.2.extend(fnd);
            g.0 += n;
            for i in 0..18 {
                g.1[i] += cc[i];
            }
            o
        });
        o.merge(sub);
        let mut g = counts.lock().unwrap();
        total += g.0;
        for i in 0..18 {
            class_counts[i] += g.1[i];
        }
        found.append(&mut g.2);
    }
    // shortest witness per signature (ties: lexicographically first schedule, for stable reports)
    found.sort_by(|a, b| (a.0.as_str(), a.1, a.2.as_str()).cmp(&(b.0.as_str(), b.1, b.2.as_str())));
    for (sig, _, msg, replay) in found {
        o.violation(sig, msg, replay);
    }
    for i in 0..18 {
        if class_counts[i] > 0 {
            o.class_n(CLASS_NAMES[i], class_counts[i]);
        }
    }
    o.note(&format!("{}_schedules", cfg.tag()), json!(total));
    o.note(&format!("{}_max_len", cfg.tag()), json!(cfg.max_len));
    o.exhaustive = Some(!stop.load(Ordering::Relaxed) && o.inconclusive.is_empty());
    o
}

/// Runs one literal schedule given as step names (used for the samples).
fn sample_schedule(o: &mut Outcome, steps: &[Step], what: &str) {
    let run = ARun::new(Odo::new(Vec::new(), 0, None), steps.len(), false, true);
    let mut opts = Vec::new();
    let mut events = Vec::new();
    for st in steps {
        opts.clear();
        run.enabled_producer(&mut opts);
        run.enabled_consumer(&mut opts);
        let Some(i) = opts.iter().position(|x| x == st) else { continue };
        let _ = i;
        let wakes0 = run.wakes.load(Ordering::SeqCst);
        let delivered0 = run.model.borrow().delivered.len();
        let nones0 = run.model.borrow().nones;
        let merged0 = run.model.borrow().merged.len();
        run.exec(*st);
        run.check_obligations("after a step");
        let m = run.model.borrow();
        let mut e = STEP_NAMES[*st as usize].to_string();
        if *st == Step::P {
            if m.delivered.len() > delivered0 {
                e.push_str(&format!(" -> Some({:?})", &m.delivered[delivered0..]));
            } else if m.nones > nones0 {
                e.push_str(" -> None");
            } else {
                e.push_str(" -> Pending");
            }
        }
        if *st == Step::M {
            e.push_str(if m.merged.len() > merged0 { " -> Ok" } else { " -> Err (receiver gone)" });
        }
        if run.wakes.load(Ordering::SeqCst) > wakes0 {
            e.push_str(" [waker woken]");
        }
        events.push(e);
    }
    run.drain();
    let m = run.model.borrow();
    o.sample(json!({"part":"A","what":what,"events":events,"after_drain":{"delivered":m.delivered,"retracted":m.retracted,"nones":m.nones},
                    "verdict": if run.failed() { "violation" } else { "ok" }}));
}

fn replay_a(r: &Value) -> Outcome {
    let mut o = Outcome::new();
    let choices: Vec<u8> = r["choices"].as_array().map(|a| a.iter().map(|x| x.as_u64().unwrap_or(0) as u8).collect()).unwrap_or_default();
    let arity: Vec<u8> = r["arity"].as_array().map(|a| a.iter().map(|x| x.as_u64().unwrap_or(0) as u8).collect()).unwrap_or_default();
    let cfg = ACfg {
        max_len: r["max_len"].as_u64().unwrap_or(9) as usize,
        nested: r["nested"].as_bool().unwrap_or(false),
        fresh_waker: r["fresh_waker"].as_bool().unwrap_or(true),
    };
    if cfg.nested {
        install_pause();
    }
    let prefix: Vec<(u8, u8)> = choices.iter().zip(arity.iter()).map(|(c, a)| (*c, *a)).collect();
    let n = prefix.len();
    let mut odo = Odo::new(prefix, n, None);
    // the recorded vector is complete: any further choice is "stop"
    odo.cut_at = Some(n);
    let rep = run_schedule(odo, cfg.max_len, cfg.nested, cfg.fresh_waker);
    let mut cc = [0u64; 18];
    let mut found = Vec::new();
    record_run(&mut o, &cfg, &rep, &mut cc, &mut found);
    for (sig, _, msg, replay) in found {
        o.violation(sig, msg, replay);
    }
    o
}

// ---------------------------------------------------------------------------------------------
// Part B — real threads
// ---------------------------------------------------------------------------------------------

const W_RUNNING: u8 = 0;
const W_IDLE: u8 = 1;
const W_NOTIFIED: u8 = 2;

/// Shared between the two actor threads and the observer of one repetition. Everything the
/// actors touch on their hot path is `Relaxed` (no happens-before edges are added between the
/// producer and the consumer by the monitor); the liveness flags are only used in the scenarios
/// that need them and are written/read around — not inside — the channel operations.
struct BShared {
    ticket: AtomicU64,
    events: AtomicU64,
    tx_drop_started: AtomicBool,
    rx_drop_started: AtomicBool,
    rx_drop_done: AtomicBool,
    waker_state: AtomicU8,
    wakes: AtomicU64,
    /// (only in repetitions with delivery hand-shakes) 1 + the largest id the consumer received
    acked: AtomicU64,
    consumer_exited: AtomicBool,
}

struct ParkWaker {
    shared: Arc<BShared>,
    thread: std::thread::Thread,
}
impl Wake for ParkWaker {
    fn wake(self: Arc<Self>) {
        self.wake_by_ref()
    }
    fn wake_by_ref(self: &Arc<Self>) {
        self.shared.wakes.fetch_add(1, Ordering::Relaxed);
        self.shared.events.fetch_add(1, Ordering::Relaxed);
        if self.shared.waker_state.swap(W_NOTIFIED, Ordering::SeqCst) == W_IDLE {
            self.thread.unpark();
        }
    }
}

/// After a poll returned Pending: sleep until the waker is woken. The state word makes
/// "idle and not woken" one atomically observable fact for the observer.
fn wait_for_wake(shared: &BShared) {
    if shared.waker_state.compare_exchange(W_RUNNING, W_IDLE, Ordering::SeqCst, Ordering::SeqCst).is_err() {
        shared.waker_state.store(W_RUNNING, Ordering::SeqCst);
        return;
    }
    loop {
        std::thread::park();
        if shared.waker_state.load(Ordering::SeqCst) == W_NOTIFIED {
            shared.waker_state.store(W_RUNNING, Ordering::SeqCst);
            return;
        }
    }
}

struct BThread {
    rng: Rng,
    shared: Arc<BShared>,
    role: u8, // 0 producer, 1 consumer
    pauses: Vec<(u64, u8)>,
    miri: bool,
    heat: [u8; 4],
}

fn small_delay(kind: u64, amount: u64) {
    match kind {
        0 => {}
        1 => std::thread::yield_now(),
        2 => {
            for _ in 0..amount {
                std::hint::spin_loop();
            }
        }
        _ => std::thread::sleep(Duration::from_micros(amount)),
    }
}

/// Pause point reached on a Part B actor thread: log (ticket, site) and delay per the seeded policy.
fn b_site(site: &'static str) {
    let Some(si) = site_idx(site) else { return };
    let delay = B_THREAD.with(|b| {
        let mut b = b.borrow_mut();
        let Some(t) = b.as_mut() else { return (0, 0) };
        let ticket = t.shared.ticket.fetch_add(1, Ordering::Relaxed);
        t.shared.events.fetch_add(1, Ordering::Relaxed);
        t.pauses.push((ticket, si | (t.role << 4)));
        let heat = t.heat[si as usize];
        if t.miri {
            return if heat > 0 && t.rng.chance(heat as u64, 4) { (1, 1 + t.rng.below(2)) } else { (0, 0) };
        }
        let r = t.rng.below(100);
        match heat {
            0 => (0, 0),
            1 => {
                if r < 30 { (1, 0) } else { (0, 0) }
            }
            2 => {
                if r < 35 {
                    (1, 0)
                } else if r < 60 {
                    (2, 20 + t.rng.below(3000))
                } else if r < 64 {
                    (3, 1 + t.rng.below(60))
                } else {
                    (0, 0)
                }
            }
            _ => {
                if r < 30 {
                    (1, 0)
                } else if r < 55 {
                    (2, 100 + t.rng.below(20000))
                } else if r < 75 {
                    (3, 1 + t.rng.below(200))
                } else {
                    (0, 0)
                }
            }
        }
    });
    if delay.0 == 1 && delay.1 > 1 {
        for _ in 0..delay.1 {
            std::thread::yield_now();
        }
    } else {
        small_delay(delay.0, delay.1);
    }
}

#[derive(Clone, Debug)]
struct BPlan {
    rep_seed: u64,
    n_ops: u32,
    retract_pct: u32,
    /// consumer: percentage of recv attempts that are cancel experiments
    cancel_pct: u32,
    /// consumer drops the receiver after this many received values
    drop_rx_after: Option<u32>,
    /// producer: no delay between the last `burst_tail` operations and the drop
    burst_tail: u32,
    /// producer inter-op delay level 0..3
    prod_pace: u8,
    cons_pace: u8,
    /// producer: percentage of successful merges after which it waits until the consumer has
    /// received that id (a logical quiescence point: if the consumer then sits un-woken, the
    /// wake-up for a pending value is lost — even if a later notification would repair it)
    sync_pct: u32,
    heat: [u8; 4],
    miri: bool,
}

impl BPlan {
    fn to_json(&self) -> Value {
        json!({"rep_seed": self.rep_seed, "n_ops": self.n_ops, "retract_pct": self.retract_pct, "cancel_pct": self.cancel_pct,
               "drop_rx_after": self.drop_rx_after, "burst_tail": self.burst_tail, "prod_pace": self.prod_pace, "cons_pace": self.cons_pace, "sync_pct": self.sync_pct,
               "heat": self.heat, "miri": self.miri})
    }
    fn from_json(v: &Value) -> Option<BPlan> {
        let mut heat = [0u8; 4];
        for (i, h) in v["heat"].as_array()?.iter().enumerate().take(4) {
            heat[i] = h.as_u64()? as u8;
        }
        Some(BPlan {
            rep_seed: v["rep_seed"].as_u64()?,
            n_ops: v["n_ops"].as_u64()? as u32,
            retract_pct: v["retract_pct"].as_u64()? as u32,
            cancel_pct: v["cancel_pct"].as_u64()? as u32,
            drop_rx_after: v["drop_rx_after"].as_u64().map(|x| x as u32),
            burst_tail: v["burst_tail"].as_u64()? as u32,
            prod_pace: v["prod_pace"].as_u64()? as u8,
            cons_pace: v["cons_pace"].as_u64()? as u8,
            sync_pct: v["sync_pct"].as_u64().unwrap_or(0) as u32,
            heat,
            miri: v["miri"].as_bool().unwrap_or(false),
        })
    }
    /// Under Miri there is ONE short repetition per interpreter seed: make it a dense one.
    fn for_miri(mut self) -> BPlan {
        if self.miri {
            self.cancel_pct = 30;
            self.retract_pct = 5;
            self.sync_pct = 20;
            self.drop_rx_after = None;
            self.heat = [2, 2, 2, 2];
            self.prod_pace = 1;
            self.cons_pace = 1;
        }
        self
    }
    fn generate(rng: &mut Rng, miri: bool, n_lo: u32, n_hi: u32) -> BPlan {
        let n_ops = rng.range(n_lo as i64, n_hi as i64) as u32;
        let mut heat = [0u8; 4];
        for h in heat.iter_mut() {
            *h = *rng.pick(&[0u8, 1, 1, 2, 2, 3]);
        }
        // one window is usually made wide on purpose
        if rng.chance(2, 3) {
            heat[rng.below(4) as usize] = 3;
        }
        BPlan {
            rep_seed: rng.u64(),
            n_ops,
            retract_pct: *rng.pick(&[0u32, 0, 5, 15]),
            cancel_pct: *rng.pick(&[0u32, 10, 30, 60]),
            drop_rx_after: if rng.chance(1, 8) { Some(rng.below(n_ops as u64 / 2 + 1) as u32) } else { None },
            burst_tail: rng.below(4) as u32,
            prod_pace: rng.below(4) as u8,
            cons_pace: rng.below(4) as u8,
            sync_pct: *rng.pick(&[0u32, 0, 5, 20, 50]),
            heat,
            miri,
        }
        .for_miri()
    }
}

#[derive(Clone, Debug)]
struct POp {
    retract: bool,
    id: u32,
    ok: bool,
    called: u32,
    saw: Option<Val>,
    rx_done_before: bool,
    rx_started_after: bool,
    /// the producer waited for the delivery of this id: 1 delivered, 2 receiver gone,
    /// 3 hang witness (quiescent, consumer idle and un-woken), 4 watchdog but not quiescent
    sync: u8,
}

#[derive(Clone, Debug)]
enum CEv {
    Some(Val),
    None { tx_drop_started: bool },
    /// a recv future was dropped: 0 never polled, 1 polled once (Pending), 2 dropped after its waker was woken
    Cancel(u8),
    DropRx,
}

fn pace(rng: &mut Rng, level: u8, miri: bool) {
    if level == 0 {
        return;
    }
    let r = rng.below(100);
    if miri {
        if r < 20 * level as u64 {
            std::thread::yield_now();
        }
        return;
    }
    match level {
        1 => {
            if r < 15 {
                std::thread::yield_now()
            }
        }
        2 => {
            if r < 20 {
                std::thread::yield_now()
            } else if r < 40 {
                small_delay(2, 10 + rng.below(2000))
            } else if r < 42 {
                small_delay(3, 1 + rng.below(50))
            }
        }
        _ => {
            if r < 20 {
                std::thread::yield_now()
            } else if r < 50 {
                small_delay(2, 100 + rng.below(10000))
            } else if r < 60 {
                small_delay(3, 1 + rng.below(150))
            }
        }
    }
}

/// Producer-side quiescence point: wait until the consumer acknowledged `id`.
fn await_delivery(shared: &BShared, id: u32, miri: bool, hang_wait: Duration) -> u8 {
    let start = if miri { None } else { Some(std::time::Instant::now()) };
    let mut mid: Option<u64> = None;
    let mut turns = 0u32;
    let mut quiet = 0u32;
    let mut last = shared.events.load(Ordering::Relaxed);
    loop {
        if shared.acked.load(Ordering::SeqCst) > id as u64 {
            return 1;
        }
        if shared.rx_drop_started.load(Ordering::SeqCst) || shared.consumer_exited.load(Ordering::SeqCst) {
            return 2;
        }
        turns += 1;
        if miri {
            std::thread::yield_now();
            let now = shared.events.load(Ordering::Relaxed);
            if now == last && shared.waker_state.load(Ordering::SeqCst) == W_IDLE {
                quiet += 1;
            } else {
                quiet = 0;
                last = now;
            }
            if quiet > 3000 {
                return 3;
            }
            continue;
        }
        if turns < 300 {
            std::thread::yield_now();
        } else {
            std::thread::sleep(Duration::from_micros(if turns < 2000 { 50 } else { 2000 }));
        }
        let el = start.map(|s| s.elapsed()).unwrap_or_default();
        if mid.is_none() && el >= hang_wait / 2 {
            mid = Some(shared.events.load(Ordering::Relaxed));
        }
        if el >= hang_wait {
            let idle = shared.waker_state.load(Ordering::SeqCst) == W_IDLE;
            let still = mid == Some(shared.events.load(Ordering::Relaxed));
            // a delivery that raced with the deadline is not a hang
            if shared.acked.load(Ordering::SeqCst) > id as u64 {
                return 1;
            }
            return if idle && still { 3 } else { 4 };
        }
    }
}

fn producer_thread(mut tx: Sender<Val>, plan: BPlan, shared: Arc<BShared>, hang_wait: Duration) -> (Vec<POp>, Vec<(u64, u8)>) {
    let mut rng = Rng::new(plan.rep_seed, 11);
    PAUSE_MODE.with(|m| m.set(2));
    B_THREAD.with(|b| {
        *b.borrow_mut() = Some(BThread { rng: Rng::new(plan.rep_seed, 12), shared: shared.clone(), role: 0, pauses: Vec::new(), miri: plan.miri, heat: plan.heat })
    });
    let check_rx = plan.drop_rx_after.is_some();
    let mut log = Vec::with_capacity(plan.n_ops as usize);
    let mut next_id = 0u32;
    let mut errs = 0;
    for i in 0..plan.n_ops {
        if i + plan.burst_tail < plan.n_ops {
            pace(&mut rng, plan.prod_pace, plan.miri);
        }
        let retract = plan.retract_pct > 0 && rng.chance(plan.retract_pct as u64, 100);
        let id = next_id;
        if !retract {
            next_id += 1;
        }
        let rx_done_before = check_rx && shared.rx_drop_done.load(Ordering::SeqCst);
        let mut called = 0;
        let mut saw: Option<Val> = None;
        let r = tx.modify(|slot| {
            called += 1;
            saw = slot.clone();
            if retract {
                *slot = None;
            } else {
                slot.get_or_insert_default().push(id);
            }
        });
        let rx_started_after = check_rx && shared.rx_drop_started.load(Ordering::SeqCst);
        shared.events.fetch_add(1, Ordering::Relaxed);
        let mut sync = 0;
        if r.is_ok() && !retract && plan.sync_pct > 0 && rng.chance(plan.sync_pct as u64, 100) {
            sync = await_delivery(&shared, id, plan.miri, hang_wait);
        }
        log.push(POp { retract, id, ok: r.is_ok(), called, saw, rx_done_before, rx_started_after, sync });
        if sync >= 3 {
            break; // dropping the sender below releases the consumer
        }
        if r.is_err() {
            errs += 1;
            if errs >= 3 {
                break;
            }
        }
    }
    shared.tx_drop_started.store(true, Ordering::SeqCst);
    drop(tx);
    shared.events.fetch_add(1, Ordering::Relaxed);
    let pauses = B_THREAD.with(|b| b.borrow_mut().take().map(|t| t.pauses).unwrap_or_default());
    PAUSE_MODE.with(|m| m.set(0));
    (log, pauses)
}

struct ConsumerOut {
    log: Mutex<Vec<CEv>>,
    pauses: Mutex<Vec<(u64, u8)>>,
    polls: AtomicU64,
    pending_polls: AtomicU64,
}

fn consumer_thread(rx: Receiver<Val>, plan: BPlan, shared: Arc<BShared>, out: Arc<ConsumerOut>) {
    let mut rng = Rng::new(plan.rep_seed, 21);
    PAUSE_MODE.with(|m| m.set(2));
    B_THREAD.with(|b| {
        *b.borrow_mut() = Some(BThread { rng: Rng::new(plan.rep_seed, 22), shared: shared.clone(), role: 1, pauses: Vec::new(), miri: plan.miri, heat: plan.heat })
    });
    let park = Arc::new(ParkWaker { shared: shared.clone(), thread: std::thread::current() });
    let waker = Waker::from(park);
    let throwaway_count = Arc::new(AtomicUsize::new(0));
    let throwaway = Waker::from(Arc::new(CountWaker(throwaway_count)));
    let mut rx = Some(rx);
    let mut received = 0u32;
    let mut nones = 0;
    let push = |e: CEv| {
        shared.events.fetch_add(1, Ordering::Relaxed);
        out.log.lock().unwrap().push(e);
    };
    // flush the pause log regularly so that the observer has it even if this thread never returns
    let flush = || {
        B_THREAD.with(|b| {
            if let Some(t) = b.borrow_mut().as_mut() {
                out.pauses.lock().unwrap().append(&mut t.pauses);
            }
        })
    };
    loop {
        if let Some(k) = plan.drop_rx_after {
            if received >= k {
                shared.rx_drop_started.store(true, Ordering::SeqCst);
                drop(rx.take());
                shared.rx_drop_done.store(true, Ordering::SeqCst);
                push(CEv::DropRx);
                break;
            }
        }
        pace(&mut rng, plan.cons_pace, plan.miri);
        let r = rx.as_mut().unwrap();
        let experiment = plan.cancel_pct > 0 && rng.chance(plan.cancel_pct as u64, 100);
        let mode = if experiment { 1 + rng.below(4) } else { 0 };
        let got: Option<Option<Val>> = match mode {
            // `select!` whose other branch is ready and polled first: created, never polled, dropped
            1 => {
                let f = r.recv();
                drop(f);
                push(CEv::Cancel(0));
                None
            }
            // `select!` against a ready future, recv polled first (with a foreign waker), then dropped
            2 | 3 => {
                let mut f = std::pin::pin!(r.recv());
                let w = if mode == 2 { &throwaway } else { &waker };
                shared.waker_state.store(W_RUNNING, Ordering::SeqCst);
                out.polls.fetch_add(1, Ordering::Relaxed);
                match f.as_mut().poll(&mut Context::from_waker(w)) {
                    Poll::Ready(v) => Some(v),
                    Poll::Pending => {
                        out.pending_polls.fetch_add(1, Ordering::Relaxed);
                        push(CEv::Cancel(1));
                        None
                    }
                }
            }
            // park until woken, then cancel INSTEAD of polling again (the notification was
            // consumed by a future that is now dropped), and start over
            4 => {
                let mut f = std::pin::pin!(r.recv());
                shared.waker_state.store(W_RUNNING, Ordering::SeqCst);
                out.polls.fetch_add(1, Ordering::Relaxed);
                match f.as_mut().poll(&mut Context::from_waker(&waker)) {
                    Poll::Ready(v) => Some(v),
                    Poll::Pending => {
                        out.pending_polls.fetch_add(1, Ordering::Relaxed);
                        flush();
                        wait_for_wake(&shared);
                        push(CEv::Cancel(2));
                        None
                    }
                }
            }
            // plain `recv().await`
            _ => {
                let mut f = std::pin::pin!(r.recv());
                let mut cx = Context::from_waker(&waker);
                loop {
                    shared.waker_state.store(W_RUNNING, Ordering::SeqCst);
                    out.polls.fetch_add(1, Ordering::Relaxed);
                    if let Poll::Ready(v) = f.as_mut().poll(&mut cx) {
                        break Some(v);
                    }
                    out.pending_polls.fetch_add(1, Ordering::Relaxed);
                    flush();
                    wait_for_wake(&shared);
                }
            }
        };
        match got {
            None => {}
            Some(Some(v)) => {
                received += 1;
                let top = v.iter().copied().max();
                push(CEv::Some(v));
                if let (true, Some(top)) = (plan.sync_pct > 0, top) {
                    shared.acked.fetch_max(top as u64 + 1, Ordering::SeqCst);
                }
            }
            Some(None) => {
                let f = shared.tx_drop_started.load(Ordering::SeqCst);
                push(CEv::None { tx_drop_started: f });
                nones += 1;
                if nones >= 3 {
                    break;
                }
            }
        }
    }
    flush();
    shared.consumer_exited.store(true, Ordering::SeqCst);
    B_THREAD.with(|b| *b.borrow_mut() = None);
    PAUSE_MODE.with(|m| m.set(0));
}

struct BRep {
    plog: Vec<POp>,
    clog: Vec<CEv>,
    pauses: Vec<(u64, u8)>,
    consumer_finished: bool,
    /// Some(true): hang witness per the quiescence rule; Some(false): watchdog fired, not quiescent
    hang: Option<bool>,
    polls: u64,
    pending_polls: u64,
    wakes: u64,
}

fn run_rep(plan: &BPlan, hang_wait: Duration) -> BRep {
    let shared = Arc::new(BShared {
        ticket: AtomicU64::new(0),
        events: AtomicU64::new(0),
        tx_drop_started: AtomicBool::new(false),
        rx_drop_started: AtomicBool::new(false),
        rx_drop_done: AtomicBool::new(false),
        waker_state: AtomicU8::new(W_RUNNING),
        wakes: AtomicU64::new(0),
        acked: AtomicU64::new(0),
        consumer_exited: AtomicBool::new(false),
    });
    let out = Arc::new(ConsumerOut { log: Mutex::new(Vec::new()), pauses: Mutex::new(Vec::new()), polls: AtomicU64::new(0), pending_polls: AtomicU64::new(0) });
    let (tx, rx) = channel::<Val>();
    let (done_tx, done_rx) = std::sync::mpsc::channel::<()>();
    let consumer = {
        let (plan, shared, out) = (plan.clone(), shared.clone(), out.clone());
        std::thread::Builder::new()
            .name("c19-consumer".into())
            .stack_size(512 << 10)
            .spawn(move || {
                consumer_thread(rx, plan, shared, out);
                let _ = done_tx.send(());
            })
            .expect("spawn consumer")
    };
    let producer = {
        let (plan, shared) = (plan.clone(), shared.clone());
        std::thread::Builder::new()
            .name("c19-producer".into())
            .stack_size(512 << 10)
            .spawn(move || producer_thread(tx, plan, shared, hang_wait))
            .expect("spawn producer")
    };
    // the producer never blocks: it always terminates
    let (plog, ppauses) = producer.join().expect("producer thread");
    let mut hang = None;
    let mut finished = false;
    if plan.miri {
        // no clocks under Miri: give the consumer scheduler turns; it is a hang witness when
        // the producer is gone, the consumer sits idle (un-woken) and nothing is logged any more
        let mut quiet = 0u32;
        let mut last = shared.events.load(Ordering::Relaxed);
        loop {
            if done_rx.try_recv().is_ok() {
                finished = true;
                break;
            }
            std::thread::yield_now();
            let now = shared.events.load(Ordering::Relaxed);
            if now == last && shared.waker_state.load(Ordering::SeqCst) == W_IDLE {
                quiet += 1;
            } else {
                quiet = 0;
                last = now;
            }
            if quiet > 3000 {
                hang = Some(true);
                break;
            }
        }
    } else {
        let half = hang_wait / 2;
        match done_rx.recv_timeout(half) {
            Ok(()) => finished = true,
            Err(_) => {
                let mid = shared.events.load(Ordering::Relaxed);
                match done_rx.recv_timeout(half) {
                    Ok(()) => finished = true,
                    Err(_) => {
                        let end = shared.events.load(Ordering::Relaxed);
                        let idle = shared.waker_state.load(Ordering::SeqCst) == W_IDLE;
                        hang = Some(mid == end && idle);
                    }
                }
            }
        }
    }
    if finished {
        let _ = consumer.join();
    }
    // (an un-finished consumer thread stays parked; it is leaked on purpose)
    let clog = out.log.lock().unwrap().clone();
    let mut pauses = ppauses;
    pauses.extend(out.pauses.lock().unwrap().iter().copied());
    pauses.sort_unstable();
    BRep {
        plog,
        clog,
        pauses,
        consumer_finished: finished,
        hang,
        polls: out.polls.load(Ordering::Relaxed),
        pending_polls: out.pending_polls.load(Ordering::Relaxed),
        wakes: shared.wakes.load(Ordering::Relaxed),
    }
}

fn clip<T: std::fmt::Debug>(v: &[T], n: usize) -> String {
    if v.len() <= n { format!("{v:?}") } else { format!("{:?} … (+{} more)", &v[..n], v.len() - n) }
}

/// Offline checker over the two per-thread logs of one repetition.
fn check_rep(o: &mut Outcome, plan: &BPlan, rep: &BRep) {
    let mut fails: Vec<(&'static str, String)> = Vec::new();
    // ---- producer side: what was merged
    let mut expected: Val = Vec::new(); // merged and not retracted, in order
    let mut retracted: HashSet<u32> = HashSet::new();
    let mut seen_err = false;
    for (i, op) in rep.plog.iter().enumerate() {
        if op.ok {
            if op.called != 1 {
                fails.push(("B:modify:closure-call-count", format!("op #{i}: modify returned Ok but applied the closure {} times", op.called)));
            }
            if seen_err {
                fails.push(("B:modify:accepted-after-refusal", format!("op #{i}: modify returned Ok after an earlier call had reported the receiver gone")));
            }
            if op.rx_done_before {
                fails.push(("B:modify:accepted-after-receiver-drop", format!("op #{i}: modify returned Ok although the receiver's drop had completed before the call")));
            }
            // the slot seen by the closure holds ids merged since some take: a suffix of `expected`
            if let Some(s) = &op.saw {
                if s.is_empty() || !expected.ends_with(s) {
                    fails.push(("B:modify:slot-content-mismatch", format!("op #{i}: the closure found {} in the slot, which is not a suffix of the ids merged so far {}", clip(s, 12), clip(&expected, 12))));
                }
            }
            if op.retract {
                if let Some(s) = &op.saw {
                    for x in s {
                        retracted.insert(*x);
                    }
                    let keep = expected.len().saturating_sub(s.len());
                    expected.truncate(keep);
                }
            } else {
                expected.push(op.id);
            }
        } else {
            seen_err = true;
            if op.called != 0 {
                fails.push(("B:modify:closure-applied-on-error", format!("op #{i}: modify returned Err but applied the closure")));
            }
            if plan.drop_rx_after.is_none() {
                fails.push(("B:modify:refused-while-receiver-alive", format!("op #{i}: modify returned Err although the receiver is never dropped in this run")));
            } else if !op.rx_started_after {
                fails.push(("B:modify:refused-while-receiver-alive", format!("op #{i}: modify returned Err although the receiver's drop had not even started when the call returned")));
            }
        }
    }
    if let Some(op) = rep.plog.iter().find(|p| p.sync == 3) {
        fails.push(("B:lost-wakeup:value-pending", format!(
            "the producer merged id {} and waited for its delivery; the consumer is parked with an un-woken waker and nothing was logged during the second half of the watchdog period, although the value is pending — lost wake-up (the producer then dropped the sender to release the consumer)", op.id)));
    }
    if rep.plog.iter().any(|p| p.sync == 4) {
        o.inconclusive("B: watchdog fired at a delivery hand-shake while the system was not quiescent (no verdict for that repetition)");
    }
    if rep.plog.iter().any(|p| p.sync == 1) {
        o.class("B:producer-waited-for-delivery");
    }
    // ---- consumer side
    let mut received: Val = Vec::new();
    let mut got_none = false;
    let mut dropped_rx = false;
    for (i, e) in rep.clog.iter().enumerate() {
        match e {
            CEv::Some(v) => {
                if got_none {
                    fails.push(("B:recv:value-after-none", format!("consumer event #{i}: recv returned Some({}) after it had returned None", clip(v, 12))));
                }
                if v.is_empty() {
                    fails.push(("B:recv:empty-value", format!("consumer event #{i}: recv returned an empty vector that nobody merged")));
                }
                received.extend_from_slice(v);
            }
            CEv::None { tx_drop_started } => {
                if !tx_drop_started {
                    fails.push(("B:recv:none-while-sender-alive", format!("consumer event #{i}: recv returned None before the sender's drop had started")));
                }
                got_none = true;
            }
            CEv::Cancel(_) => {}
            CEv::DropRx => dropped_rx = true,
        }
    }
    // each id at most once, only merged ids, never a retracted one
    let mut seen = HashSet::new();
    for x in &received {
        if !seen.insert(*x) {
            fails.push(("B:recv:duplicate", format!("id {x} was received twice")));
            break;
        }
    }
    if let Some(x) = received.iter().find(|x| retracted.contains(x)) {
        fails.push(("B:recv:never-merged-or-retracted", format!("id {x} was received although the producer retracted it from the slot")));
    }
    let max_id = rep.plog.iter().filter(|p| p.ok && !p.retract).map(|p| p.id).max();
    if let Some(x) = received.iter().find(|x| max_id.is_none_or(|m| **x > m)) {
        fails.push(("B:recv:never-merged-or-retracted", format!("id {x} was received but never merged")));
    }
    if rep.consumer_finished && fails.is_empty() {
        if got_none {
            if received != expected {
                let missing: Val = expected.iter().copied().filter(|x| !seen.contains(x)).collect();
                let sig = if !missing.is_empty() && received.len() < expected.len() && expected.starts_with(&received) {
                    "B:recv:none-before-last-value"
                } else if !missing.is_empty() {
                    "B:recv:lost"
                } else {
                    "B:recv:order"
                };
                fails.push((sig, format!("the consumer saw None (end of stream) after receiving {} ids, but {} ids were merged and not retracted; missing {}; tail of received {:?}, tail of merged {:?}",
                    received.len(), expected.len(), clip(&missing, 12), &received[received.len().saturating_sub(6)..], &expected[expected.len().saturating_sub(6)..])));
            }
        } else if dropped_rx {
            if !expected.starts_with(&received) {
                fails.push(("B:recv:order", format!("the ids received before the receiver was dropped {} are not a prefix of the ids merged {}", clip(&received, 16), clip(&expected, 16))));
            }
        }
    }
    match rep.hang {
        Some(true) => {
            let missing: Val = expected.iter().copied().filter(|x| !seen.contains(x)).collect();
            fails.push(("B:lost-wakeup:sender-dropped", format!(
                "the producer merged {} ids and dropped the sender; the consumer (received {} ids, None seen: {got_none}) is parked with an un-woken waker and nothing was logged during the second half of the watchdog period — lost wake-up; ids never delivered: {}",
                expected.len(), received.len(), clip(&missing, 12))));
        }
        Some(false) => o.inconclusive("B: watchdog fired while the system was not quiescent (no verdict for that repetition)"),
        None => {}
    }
    // ---- coverage
    o.class("B:repetition");
    if rep.pending_polls > 0 {
        o.class("B:consumer-parked");
    }
    if rep.wakes > 0 {
        o.class("B:consumer-woken");
    }
    if rep.clog.iter().any(|e| matches!(e, CEv::Cancel(2))) {
        o.class("B:cancel-of-woken-recv");
    }
    if rep.clog.iter().any(|e| matches!(e, CEv::Cancel(1))) {
        o.class("B:cancel-after-one-poll");
    }
    if rep.clog.iter().any(|e| matches!(e, CEv::Some(v) if v.len() > 1)) {
        o.class("B:merged-value-received");
    }
    if got_none {
        o.class("B:none-after-sender-drop");
    }
    if seen_err {
        o.class("B:modify-refused-after-receiver-drop");
    }
    if !retracted.is_empty() {
        o.class("B:retract-of-pending-value");
    }
    // race windows actually overlapped, from the ticket order of the pause-point log
    let ev: Vec<(u8, u8)> = rep.pauses.iter().map(|(_, x)| (x >> 4, x & 15)).collect(); // (role, site)
    for i in 0..ev.len() {
        let (role, site) = ev[i];
        if role == 1 && (site == SITE_ENABLE || site == SITE_TAKE) {
            // producer events before the consumer's next event
            let mut j = i + 1;
            let (mut m, mut d) = (false, false);
            while j < ev.len() && ev[j].0 == 0 {
                if ev[j].1 == SITE_MODIFY {
                    m = true;
                }
                if ev[j].1 == SITE_SDROP {
                    d = true;
                }
                j += 1;
            }
            if m && site == SITE_ENABLE {
                o.class("B:window:modify-between-enable-and-take");
            }
            if m && site == SITE_TAKE {
                o.class("B:window:modify-between-take-and-flag-check");
            }
            if d && site == SITE_TAKE {
                o.class("B:window:sender-drop-between-take-and-flag-check");
            }
            if m && d && site == SITE_TAKE {
                o.class("B:window:last-value-race(merge+drop between take and flag check)");
            }
        }
        if role == 0 && site == SITE_MODIFY && i + 1 < ev.len() && ev[i + 1].0 == 1 {
            o.class("B:window:consumer-between-unlock-and-notify");
        }
        if role == 0 && site == SITE_SDROP && i + 1 < ev.len() && ev[i + 1].0 == 1 {
            o.class("B:window:consumer-after-flag-store");
        }
    }
    let sig_bytes: Vec<u8> = rep.pauses.iter().map(|(_, x)| *x).collect();
    let isig = fw::hash64(&sig_bytes);
    o.case(isig ^ plan.rep_seed.rotate_left(17), !expected.is_empty() && rep.polls > 0);
    o.note_add("B_events_observed", (rep.plog.len() + rep.clog.len() + rep.pauses.len()) as u64);
    o.note_add("B_ids_merged", expected.len() as u64);
    o.note_add("B_ids_received", received.len() as u64);
    for (sig, msg) in fails {
        o.violation(
            sig,
            format!("{msg} [plan {}]", plan.to_json()),
            json!({"part":"b","plan":plan.to_json(),
                   "consumer_log_tail": rep.clog.iter().rev().take(12).map(|e| format!("{e:?}")).collect::<Vec<_>>(),
                   "producer_log_tail": rep.plog.iter().rev().take(8).map(|e| format!("{e:?}")).collect::<Vec<_>>()}),
        );
    }
}

fn interleaving_sig(rep: &BRep) -> u64 {
    let b: Vec<u8> = rep.pauses.iter().map(|(_, x)| *x).collect();
    fw::hash64(&b)
}

fn hang_wait(ctx: &Ctx) -> Duration {
    let s = ctx.extra.get("hang_wait_s").and_then(|v| v.parse::<f64>().ok()).unwrap_or(30.0);
    Duration::from_secs_f64(s.max(0.2))
}

fn part_b(ctx: &Ctx) -> Outcome {
    install_pause();
    let wait = hang_wait(ctx);
    let sigs: Mutex<HashSet<u64>> = Mutex::new(HashSet::new());
    let body = |reps: u64, mut rng: Rng, miri: bool, n_lo: u32, n_hi: u32| {
        let mut o = Outcome::new();
        let mut local = HashSet::new();
        for _ in 0..reps {
            let plan = BPlan::generate(&mut rng, miri, n_lo, n_hi);
            let rep = run_rep(&plan, wait);
            local.insert(interleaving_sig(&rep));
            check_rep(&mut o, &plan, &rep);
            if rep.hang.is_some() || rep.plog.iter().any(|p| p.sync >= 3) || o.violations.len() >= 4 {
                break; // a hung consumer thread stays parked for good: stop this worker
            }
        }
        sigs.lock().unwrap().extend(local);
        o
    };
    let mut o = if ctx.miri() {
        // 30–40 operations, one repetition, yields only (run with -Zmiri-many-seeds)
        body(1, ctx.rng(77), true, 30, 40)
    } else {
        let workers = ctx.workers.clamp(1, 16);
        let total = ctx.vol(15_000, 200_000);
        let per = (total / workers as u64).max(1);
        fw::par(ctx, workers, |_w, rng| body(per, rng, false, 8, if ctx.quick() { 160 } else { 400 }))
    };
    o.note("B_distinct_interleaving_signatures", json!(sigs.lock().unwrap().len()));
    o.require_class("B:none-after-sender-drop");
    if !ctx.miri() {
        for c in ["B:consumer-parked", "B:consumer-woken", "B:cancel-of-woken-recv", "B:merged-value-received"] {
            o.require_class(c);
        }
        o.require_class("B:producer-waited-for-delivery");
        for c in [
            "B:modify-refused-after-receiver-drop",
            "B:window:modify-between-enable-and-take",
            "B:window:modify-between-take-and-flag-check",
            "B:window:sender-drop-between-take-and-flag-check",
            "B:window:consumer-between-unlock-and-notify",
        ] {
            o.require_class(c);
        }
    }
    o
}

fn replay_b(ctx: &Ctx, r: &Value) -> Outcome {
    install_pause();
    let mut o = Outcome::new();
    let Some(plan) = BPlan::from_json(&r["plan"]) else {
        o.inconclusive("unrecognised replay file");
        return o;
    };
    // thread interleavings are not reproducible by seed: re-run the same scripted repetition
    // many times and report how often the failure shows again
    let tries = 400;
    let mut hit = 0;
    for _ in 0..tries {
        let rep = run_rep(&plan, hang_wait(ctx));
        let mut oo = Outcome::new();
        check_rep(&mut oo, &plan, &rep);
        if !oo.violations.is_empty() {
            hit += 1;
        }
        let stop = rep.hang.is_some() || rep.plog.iter().any(|p| p.sync >= 3);
        o.merge(oo);
        if stop {
            break;
        }
    }
    o.note("replay_reproduced", json!(format!("{hit} of up to {tries} re-runs")));
    o
}

// ---------------------------------------------------------------------------------------------

fn part_a(ctx: &Ctx) -> Outcome {
    let mut out = Outcome::new();
    let miri = ctx.miri();
    let workers = if miri { 0 } else { ctx.workers.max(1) };
    let opt = |k: &str| ctx.extra.get(k).and_then(|v| v.parse::<usize>().ok());
    // A1: poll granularity
    let l1 = opt("a1_len").unwrap_or(if miri { 5 } else if ctx.quick() { 10 } else { 13 });
    let a1 = part_a_enumerate(ctx, ACfg { max_len: l1, nested: false, fresh_waker: true }, workers);
    let ex1 = a1.exhaustive == Some(true);
    out.merge(a1);
    // A2: pause-point granularity (context switches at the four race windows)
    let l2 = opt("a2_len").unwrap_or(if miri { 4 } else if ctx.quick() { 8 } else { 10 });
    let mut ex2 = true;
    if l2 > 0 {
        install_pause();
        let a2 = part_a_enumerate(ctx, ACfg { max_len: l2, nested: true, fresh_waker: false }, workers);
        ex2 = a2.exhaustive == Some(true);
        out.merge(a2);
    }
    out.exhaustive = Some(ex1 && ex2);
    out.note(
        "exhaustive_part",
        json!(format!(
            "A1: every sequence of <= {l1} poll-granularity steps; A2: every sequence of <= {l2} steps with context switches at the 4 pause points (one level of preemption)"
        )),
    );
    // literal samples
    use Step::*;
    sample_schedule(&mut out, &[S, P, M, M, P, DS, S, P], "parked recv woken by a merge; two merges arrive as one value; None after the sender is dropped");
    sample_schedule(&mut out, &[S, P, M, C, S, P], "the woken recv is cancelled before it is polled again; the restarted recv still gets the value");
    sample_schedule(&mut out, &[M, DS, S, P, S, P], "a value merged right before the sender is dropped is delivered before None");
    sample_schedule(&mut out, &[M, R, S, P, M, P], "a retracted update is never delivered; the next merge wakes the parked recv");
    sample_schedule(&mut out, &[DR, M], "modify is refused once the receiver is gone");
    for c in [
        "A:parked-recv-woken-by-merge",
        "A:parked-recv-woken-by-sender-drop",
        "A:cancel-of-woken-recv",
        "A:value-received-after-cancel-of-woken-recv",
        "A:value-received-after-sender-drop",
        "A:none-after-sender-drop",
        "A:retract-of-pending-value",
        "A:merge-into-pending-value",
        "A:modify-refused-after-receiver-drop",
        "A:restart-after-cancel",
    ] {
        out.require_class(c);
    }
    if l2 >= 4 {
        for c in [
            "A2:merge-inside-recv-window",
            "A2:sender-drop-inside-recv-window",
            "A2:last-value-race(merge+drop between take and flag check, value delivered)",
            "A2:consumer-step-inside-modify-window",
            "A2:consumer-step-inside-sender-drop-window",
        ] {
            out.require_class(c);
        }
    }
    out
}

pub fn run(ctx: &Ctx) -> Outcome {
    if let Some(p) = &ctx.replay {
        let v: Value = serde_json::from_str(&std::fs::read_to_string(p).expect("replay file")).expect("json");
        let r = &v["replay"];
        return match r["part"].as_str() {
            Some("a") => replay_a(r),
            Some("b") => replay_b(ctx, r),
            _ => {
                let mut o = Outcome::new();
                o.inconclusive("unrecognised replay file");
                o
            }
        };
    }
    let mut out = Outcome::new();
    match ctx.part.as_deref() {
        Some("a") => out.merge(part_a(ctx)),
        Some("b") => out.merge(part_b(ctx)),
        Some("c") => out.merge(crate::checks::session_e2e::run_c19_c(ctx)),
        Some("d") => out.merge(crate::checks::c19_handoff::run(ctx)),
        _ => {
            out.merge(part_a(ctx));
            let ex = out.exhaustive;
            out.merge(part_b(ctx));
            out.merge(crate::checks::c19_handoff::run(ctx));
            out.exhaustive = ex;
        }
    }
    out
}
