//! C20 — after USE keyspace succeeds, all requests run on connections in that keyspace;
//! invalid names are rejected locally and never reach a node.
//!
//! The mock nodes record, for every non-USE request, the keyspace the node had
//! ACKNOWLEDGED on that very connection when the frame arrived.

use super::e2e::*;
use crate::fw::{self, Ctx, Outcome, Rng};
use crate::mock::log::Ev;
use crate::mock::*;
use crate::wire::request::Request;
use crate::wire::response::*;
use scylla::client::PoolSize;
use serde_json::json;
use std::collections::HashMap;
use std::num::NonZeroUsize;
use std::sync::atomic::{AtomicBool, AtomicU64, Ordering};
use std::sync::{Arc, Mutex};
use std::time::Duration;

struct H20 {
    /// per-mille of USE frames whose acknowledgement is delayed
    delay_pm: u64,
    /// per-mille of USE frames answered with an error
    error_pm: AtomicU64,
    counter: AtomicU64,
    seed: u64,
    use_frames: Mutex<Vec<(usize, u64, String, bool)>>, // node, conn, text, quoted
    /// node index + 1 whose USE acknowledgements are delayed beyond the client's connection timeout (0: none)
    slow_node: AtomicU64,
    /// (connection, log position) of every USE that a node executed only after the client had given up on it
    late_executions: Arc<Mutex<Vec<(u64, u64)>>>,
}

impl H20 {
    fn roll(&self) -> u64 {
        let n = self.counter.fetch_add(1, Ordering::SeqCst);
        fw::hash64(format!("{}:{}", self.seed, n).as_bytes()) % 1000
    }
}

impl Handler for H20 {
    fn statement(&self, node: &MockNode, query: &str) -> Option<StatementDef> {
        Echo::new(EchoMode::Immediate).statement(node, query)
    }
    fn on_request(&self, rq: Rq) {
        match echo_id(&rq) {
            Some(id) => Echo::answer(id, &rq),
            None => rq.void(),
        }
    }
    fn on_use(&self, rq: Rq, keyspace: String) {
        let text = match &*rq.request {
            Request::Query { query, .. } => query.clone(),
            _ => String::new(),
        };
        let quoted = text.contains('"');
        self.use_frames.lock().unwrap().push((rq.node.idx, rq.conn.id, text, quoted));
        if self.slow_node.load(Ordering::SeqCst) == rq.node.idx as u64 + 1 {
            // the node is slow to EXECUTE this USE: it takes effect (and is answered) only after the client's timeout.
            // Requests of one connection are independent of each other, so this late execution may even undo a
            // newer USE on the same connection: such connections are recorded (see the judge).
            let late = self.late_executions.clone();
            tokio::spawn(async move {
                tokio::time::sleep(Duration::from_millis(SLOW_USE_MS)).await;
                late.lock().unwrap().push((rq.conn.id, rq.cluster.log.counter()));
                rq.ack_keyspace(&keyspace);
            });
            return;
        }
        let r = self.roll();
        if r < self.error_pm.load(Ordering::SeqCst) {
            rq.error(ErrorBody::simple(errcode::INVALID, "scripted USE failure"));
        } else if r < self.error_pm.load(Ordering::SeqCst) + self.delay_pm {
            let d = 2 + (r % 40);
            tokio::spawn(async move {
                tokio::time::sleep(Duration::from_millis(d)).await;
                rq.ack_keyspace(&keyspace);
            });
        } else {
            rq.ack_keyspace(&keyspace);
        }
    }
}

/// the client's connection timeout (which also bounds a USE round trip) and how late a slow node acknowledges
const CONNECT_TIMEOUT_MS: u64 = 1200;
const SLOW_USE_MS: u64 = 3000;

/// Round robin over EVERY node of the cluster state (token owners or not).
#[derive(Debug)]
struct EveryKnownNode(std::sync::atomic::AtomicUsize);

impl scylla::policies::load_balancing::LoadBalancingPolicy for EveryKnownNode {
    fn pick<'a>(&'a self, _rq: &'a scylla::policies::load_balancing::RoutingInfo, cluster: &'a scylla::cluster::ClusterState) -> Option<(scylla::cluster::NodeRef<'a>, Option<scylla::routing::Shard>)> {
        let nodes = cluster.get_nodes_info();
        if nodes.is_empty() {
            return None;
        }
        Some((&nodes[self.0.fetch_add(1, Ordering::Relaxed) % nodes.len()], None))
    }
    fn fallback<'a>(&'a self, _rq: &'a scylla::policies::load_balancing::RoutingInfo, cluster: &'a scylla::cluster::ClusterState) -> scylla::policies::load_balancing::FallbackPlan<'a> {
        Box::new(cluster.get_nodes_info().iter().map(|n| (n, None)))
    }
    fn name(&self) -> String {
        "EveryKnownNode".into()
    }
}

#[derive(Clone, Debug, PartialEq, Eq)]
enum Step {
    /// one node acknowledges USE only after the client's timeout, the other at once: the call may fail, but if it
    /// returns Ok every later request must still run on a connection in that keyspace
    UseSlow(&'static str, usize),
    /// the node is down (all its connections gone, nothing listening) WHILE the keyspace is set, and comes back
    /// afterwards: its re-established connections must not carry requests before the keyspace is set on them
    DownUseUp(usize, &'static str),
    /// the keyspace is set by EXECUTING a `USE` statement (quoted = case-sensitive name) instead of calling
    /// `use_keyspace`: the driver learns it from the SET_KEYSPACE result and propagates it to its connections
    UseStatement(&'static str, bool),
    Use(&'static str, bool),
    Kill(usize),
    Restart(usize),
    AddNode,
    Pause(u64),
    UseFailing(&'static str),
}

#[derive(Clone, Debug)]
struct Hist {
    steps: Vec<Step>,
    per_shard: usize,
    delay_pm: u64,
    workers: usize,
    seed: u64,
}

struct HistOut {
    log: Arc<crate::mock::log::EventLog>,
    build_error: Option<String>,
    use_results: Vec<(u64, String, bool)>, // op, name, ok
    late_executions: Vec<(u64, u64)>,
}

async fn run_hist(h: &Hist) -> HistOut {
    let handler = Arc::new(H20 { delay_pm: h.delay_pm, error_pm: AtomicU64::new(0), counter: AtomicU64::new(0), seed: h.seed, use_frames: Mutex::new(vec![]), slow_node: AtomicU64::new(0), late_executions: Arc::new(Mutex::new(vec![])) });
    let sharded = NodeSpec { dc: Some("dc1".into()), rack: Some("r1".into()), tokens: vec![-500], sharding: Some(ShardSpec { nr_shards: 3, msb_ignore: 12, shard_aware_port: true }), features: Features::default() };
    let mut ks = vec![];
    // "Ks3" and "ks3", "ks2" and "KS2" are different keyspaces: a name used case-sensitively must not be folded,
    // one used case-insensitively must be
    for n in ["ks1", "ks2", "Ks3", "ks", "ks3", "KS2"] {
        ks.push(KeyspaceDef::simple(n, 2).with_table(TableDef::new("echo", &[("id", "bigint")], &[("payload", "blob")])));
    }
    let mut nodes = vec![sharded.clone(), NodeSpec::simple("dc1", "r2", vec![500])];
    // every third history: a third node that owns NO token (a coordinator-only node); the default policy
    // never picks it, so these histories route through a policy that walks over every known node
    let zero_token = h.seed % 3 == 1;
    if zero_token {
        nodes.push(NodeSpec::simple("dc1", "r3", vec![]));
    }
    let spec = ClusterSpec { nodes, keyspaces: ks, cluster_name: "c20".into() };
    let cluster = MockCluster::start(spec, handler.clone()).await;
    let log = cluster.log().clone();
    let mut out = HistOut { log: log.clone(), build_error: None, use_results: vec![], late_executions: vec![] };
    let per_shard = h.per_shard;
    // half of the histories start with a keyspace given to the SessionBuilder: it counts as a
    // use_keyspace call that has returned once the session is built
    let builder_ks = h.seed % 2 == 0;
    let build_op = next_op();
    if builder_ks {
        call(&log, build_op, "use_keyspace", "ks2");
    }
    let session = match connect(&cluster, |b| {
        let b = b.pool_size(PoolSize::PerShard(NonZeroUsize::new(per_shard).unwrap())).connection_timeout(Duration::from_millis(CONNECT_TIMEOUT_MS));
        let b = if zero_token {
            let p = scylla::client::execution_profile::ExecutionProfile::builder().load_balancing_policy(Arc::new(EveryKnownNode(std::sync::atomic::AtomicUsize::new(0)))).build();
            b.default_execution_profile_handle(p.into_handle())
        } else {
            b
        };
        if builder_ks { b.use_keyspace("ks2", false) } else { b }
    })
    .await
    {
        Ok(s) => Arc::new(s),
        Err(e) => {
            out.build_error = Some(e);
            cluster.shutdown();
            return out;
        }
    };
    if builder_ks {
        ret(&log, build_op, true, "session built with keyspace");
    }
    let stop = Arc::new(AtomicBool::new(false));
    let mut workers = Vec::new();
    for _ in 0..h.workers {
        let (s, l, stop) = (session.clone(), log.clone(), stop.clone());
        workers.push(tokio::spawn(async move {
            while !stop.load(Ordering::SeqCst) {
                let id = next_op();
                call(&l, id, "echo", "");
                let r = tokio::time::timeout(Duration::from_secs(10), s.query_unpaged(format!("{ECHO_QUERY_PREFIX}{id}"), ())).await;
                ret(&l, id, matches!(r, Ok(Ok(_))), "");
                tokio::time::sleep(Duration::from_micros(300)).await;
            }
        }));
    }
    let mut added = false;
    for st in &h.steps {
        match st {
            Step::Use(name, _) | Step::UseFailing(name) | Step::UseSlow(name, _) => {
                let cs = if let Step::Use(_, cs) = st { *cs } else { false };
                if let Step::UseSlow(_, n) = st {
                    handler.slow_node.store(*n as u64 + 1, Ordering::SeqCst);
                }
                if matches!(st, Step::UseFailing(_)) {
                    handler.error_pm.store(400, Ordering::SeqCst);
                }
                let op = next_op();
                // (a case-sensitive name is logged in quotes)
                call(&log, op, "use_keyspace", if cs { format!("\"{name}\"") } else { name.to_string() });
                let r = tokio::time::timeout(Duration::from_secs(20), session.use_keyspace(*name, cs)).await;
                let ok = matches!(r, Ok(Ok(())));
                ret(&log, op, ok, format!("{r:?}"));
                out.use_results.push((op, name.to_string(), ok));
                handler.error_pm.store(0, Ordering::SeqCst);
                handler.slow_node.store(0, Ordering::SeqCst);
            }
            Step::Kill(n) => {
                let how = if *n % 2 == 0 { CloseHow::Rst } else { CloseHow::Fin };
                for c in cluster.established(*n) {
                    if !c.registered.load(Ordering::SeqCst) {
                        c.close(how);
                    }
                }
            }
            Step::UseStatement(name, quoted) => {
                let op = next_op();
                call(&log, op, "use_keyspace", if *quoted { format!("\"{name}\"") } else { name.to_string() });
                let text = if *quoted { format!("USE \"{name}\"") } else { format!("USE {name}") };
                let r = tokio::time::timeout(Duration::from_secs(20), session.query_unpaged(text, ())).await;
                let ok = matches!(r, Ok(Ok(_)));
                ret(&log, op, ok, format!("{:?}", r.map(|x| x.map(|_| ()))));
                out.use_results.push((op, name.to_string(), ok));
            }
            Step::DownUseUp(n, name) => {
                cluster.stop_node(*n, CloseHow::Rst);
                // let the driver notice that the pool of this node is gone
                tokio::time::sleep(Duration::from_millis(80)).await;
                let op = next_op();
                call(&log, op, "use_keyspace", name.to_string());
                let r = tokio::time::timeout(Duration::from_secs(20), session.use_keyspace(*name, false)).await;
                let ok = matches!(r, Ok(Ok(())));
                ret(&log, op, ok, format!("{r:?}"));
                out.use_results.push((op, name.to_string(), ok));
                cluster.start_node(*n).await;
                let (c, n2) = (cluster.clone(), *n);
                cluster.wait_until(Duration::from_secs(5), move || c.established(n2).iter().any(|x| !x.registered.load(Ordering::SeqCst))).await;
                tokio::time::sleep(Duration::from_millis(80)).await;
            }
            Step::Restart(n) => {
                cluster.stop_node(*n, CloseHow::Rst);
                tokio::time::sleep(Duration::from_millis(30)).await;
                cluster.start_node(*n).await;
            }
            Step::AddNode => {
                if !added {
                    added = true;
                    cluster.add_node(NodeSpec::simple("dc1", "r3", vec![0]), true).await;
                    let _ = tokio::time::timeout(Duration::from_secs(10), session.refresh_metadata()).await;
                }
            }
            Step::Pause(ms) => tokio::time::sleep(Duration::from_millis(*ms)).await,
        }
    }
    tokio::time::sleep(Duration::from_millis(120)).await;
    stop.store(true, Ordering::SeqCst);
    for w in workers {
        let _ = tokio::time::timeout(Duration::from_secs(15), w).await;
    }
    out.late_executions = handler.late_executions.lock().unwrap().clone();
    drop(session);
    cluster.shutdown();
    out
}

fn judge(o: &mut Outcome, h: &Hist, r: &HistOut) {
    if let Some(e) = &r.build_error {
        o.inconclusive(format!("history could not start: {e}"));
        return;
    }
    let evs = r.log.snapshot();
    // use_keyspace operations in call order: (call_seq, ret_seq, name, ok)
    let mut uses: Vec<(u64, u64, String, bool)> = Vec::new();
    let mut call_seq: HashMap<u64, u64> = HashMap::new();
    let mut open_use: HashMap<u64, (u64, String)> = HashMap::new();
    for l in &evs {
        match &l.ev {
            Ev::ClientCall { op, api, detail } => {
                if *api == "use_keyspace" {
                    open_use.insert(*op, (l.seq, detail.clone()));
                } else {
                    call_seq.insert(*op, l.seq);
                }
            }
            Ev::ClientReturn { op, ok, .. } => {
                if let Some((c, name)) = open_use.remove(op) {
                    uses.push((c, l.seq, name, *ok));
                }
            }
            _ => {}
        }
    }
    uses.sort();
    let replay = json!({"steps": h.steps.iter().map(|s| format!("{s:?}")).collect::<Vec<_>>(), "per_shard": h.per_shard, "delay_pm": h.delay_pm, "workers": h.workers, "seed": h.seed});
    o.case(fw::hash64(format!("{:?}{}{}", h.steps, h.per_shard, h.delay_pm).as_bytes()), true);
    for s in &h.steps {
        o.class(&format!("step:{}", format!("{s:?}").split('(').next().unwrap()));
    }
    if h.steps.windows(2).any(|w| matches!(w[0], Step::Kill(_) | Step::Pause(_)) && matches!(w[1], Step::Use("Ks3", _)))
        && h.steps.iter().any(|s| *s == Step::Use("Ks3", true))
        && h.steps.iter().any(|s| *s == Step::Use("Ks3", false))
    {
        o.class("history:same-spelling-other-case-sensitivity");
    }
    let mut checked = 0u64;
    let mut unspecified = 0u64;
    let mut conns_after_use: std::collections::HashSet<u64> = Default::default();
    let mut accept_seq: HashMap<u64, u64> = HashMap::new();
    for l in &evs {
        if let Ev::Accept { conn, .. } = &l.ev {
            accept_seq.insert(*conn, l.seq);
        }
    }
    for l in &evs {
        let Ev::Recv { conn, keyspace, request, node, .. } = &l.ev else { continue };
        let id = match &**request {
            Request::Query { query, .. } => query.strip_prefix(ECHO_QUERY_PREFIX).and_then(|s| s.trim().parse::<u64>().ok()),
            _ => None,
        };
        let Some(id) = id else { continue };
        let Some(cs) = call_seq.get(&id) else { continue };
        // U = the latest use_keyspace that had returned before this request's call started
        let Some(ui) = uses.iter().rposition(|(_, ret, _, _)| ret < cs) else {
            unspecified += 1;
            continue;
        };
        let (_, _, name, ok) = &uses[ui];
        // a later use_keyspace had already started when the frame arrived: unspecified window
        let next_started = uses.get(ui + 1).map(|(c, _, _, _)| *c < l.seq).unwrap_or(false);
        if !*ok || next_started {
            unspecified += 1;
            continue;
        }
        checked += 1;
        if accept_seq.get(conn).map(|a| *a > uses[ui].1).unwrap_or(false) {
            conns_after_use.insert(*conn);
        }
        // the call names the keyspace as the server resolves it: literally when case-sensitive, folded otherwise
        // A USE that the client had given up on (timed out) and that the node executed only later may have
        // changed the connection behind the driver's back - the statement says nothing about such connections
        // (first version: judged them, a false alarm of the thorough tier on the unchanged tree).
        if r.late_executions.iter().any(|(c, at)| c == conn && *at < l.seq) {
            unspecified += 1;
            o.class("connection-changed-by-a-late-executed-USE(not-asserted)");
            continue;
        }
        let got = keyspace.as_deref().unwrap_or("");
        let want = if name.starts_with('"') { name.trim_matches('"').to_string() } else { name.to_lowercase() };
        if got != want {
            let opened_after = accept_seq.get(conn).map(|a| *a > uses[ui].1).unwrap_or(false);
            o.violation(
                if opened_after { "c20:request-on-new-connection-before-keyspace-set" } else { "c20:request-on-connection-in-other-keyspace" },
                format!("request {id} was issued after use_keyspace({name:?}) had returned Ok, but arrived at node {node} on connection {conn} whose acknowledged keyspace was {keyspace:?}"),
                replay.clone(),
            );
        }
    }
    if !conns_after_use.is_empty() {
        o.class("requests-on-connections-opened-after-use");
    }
    if uses.iter().any(|u| !u.3) {
        o.class("use:failed-on-some-connection");
    }
    if h.seed % 2 == 0 {
        o.class("keyspace-given-to-session-builder");
    }
    if h.seed % 3 == 1 && evs.iter().any(|l| matches!(&l.ev, Ev::Recv { node: 2, request, .. } if matches!(&**request, Request::Query { query, .. } if query.starts_with(ECHO_QUERY_PREFIX)))) {
        o.class("requests-on-a-node-that-owns-no-token");
    }
    for v in r.log.violations() {
        o.node_violation("c20", &v, replay.clone());
    }
    o.evals(checked);
    o.note_add("requests_checked", checked);
    o.note_add("requests_in_unspecified_windows", unspecified);
    o.note_add("use_calls", uses.len() as u64);
    if o.want_sample() {
        o.sample(json!({"history": replay, "uses": uses.iter().map(|u| format!("{}:{}", u.2, u.3)).collect::<Vec<_>>(), "requests_checked": checked}));
    }
}

fn gen_hist(rng: &mut Rng, seed: u64) -> Hist {
    let names = ["ks1", "ks2", "ks"];
    let mut steps = if seed % 2 == 0 { vec![Step::Pause(20), Step::Kill(rng.below(2) as usize), Step::Pause(40)] } else { vec![Step::Use(names[rng.below(3) as usize], false), Step::Pause(5)] };
    let n = rng.usize(3, 9);
    for _ in 0..n {
        steps.push(match rng.below(12) {
            0..=3 => Step::Use(names[rng.below(3) as usize], false),
            4 => match rng.below(4) {
                0 | 1 => Step::Use("Ks3", true),
                2 => Step::Use("KS2", false), // resolves to ks2
                _ => Step::Use("ks3", false),
            },
            5 | 6 => Step::Kill(rng.below(2) as usize),
            7 => Step::Restart(rng.below(2) as usize),
            8 => Step::AddNode,
            9 => Step::UseFailing(names[rng.below(3) as usize]),
            11 if rng.chance(1, 3) => match rng.below(3) {
                0 => Step::UseStatement("Ks3", true),
                1 => Step::UseStatement("KS2", false), // resolves to ks2
                _ => Step::UseStatement(names[rng.below(3) as usize], rng.bool()),
            },
            11 if rng.chance(1, 2) => Step::DownUseUp(rng.below(2) as usize, names[rng.below(3) as usize]),
            10 if rng.chance(1, 3) => Step::UseSlow(names[rng.below(3) as usize], rng.below(2) as usize),
            _ => Step::Pause(5 + rng.below(60)),
        });
        // a failed use_keyspace is often retried with the very same name
        if let Some(Step::UseFailing(n)) = steps.last().cloned() {
            if rng.chance(2, 3) {
                steps.push(Step::Pause(5 + rng.below(20)));
                steps.push(Step::Use(n, false));
            }
        }
        if rng.bool() {
            steps.push(Step::Pause(10 + rng.below(80)));
        }
    }
    // the same spelling with the other case sensitivity names ANOTHER keyspace ("Ks3" quoted is Ks3, unquoted is
    // ks3): switched while connections are being replaced, a connection set up for the old reading must not
    // serve requests after the switch returned
    if seed % 4 == 1 {
        let first_cs = rng.bool();
        steps.push(Step::Use("Ks3", first_cs));
        steps.push(Step::Pause(5 + rng.below(20)));
        steps.push(Step::Kill(rng.below(2) as usize));
        if rng.bool() {
            steps.push(Step::Kill(1 - rng.below(2) as usize));
        }
        if rng.chance(2, 3) {
            steps.push(Step::Pause(rng.below(4)));
        }
        steps.push(Step::Use("Ks3", !first_cs));
        steps.push(Step::Pause(40 + rng.below(60)));
    }
    Hist { steps, per_shard: rng.usize(1, 2), delay_pm: *rng.pick(&[0u64, 300, 700]), workers: rng.usize(2, 6), seed }
}

/// Names: accepted iff 1..=48 characters, all ASCII alphanumeric or '_'.
fn name_is_valid(n: &str) -> bool {
    let len = n.chars().count();
    (1..=48).contains(&len) && n.chars().all(|c| c.is_ascii_alphanumeric() || c == '_')
}

async fn validation(o: &mut Outcome, ctx: &Ctx) {
    let handler = Arc::new(H20 { delay_pm: 0, error_pm: AtomicU64::new(0), counter: AtomicU64::new(0), seed: 0, use_frames: Mutex::new(vec![]), slow_node: AtomicU64::new(0), late_executions: Arc::new(Mutex::new(vec![])) });
    let cluster = MockCluster::start(single_node_spec(), handler.clone()).await;
    cluster.allow_any_keyspace();
    let session = match connect(&cluster, |b| b).await {
        Ok(s) => s,
        Err(e) => {
            o.inconclusive(format!("validation part could not start: {e}"));
            cluster.shutdown();
            return;
        }
    };
    let mut rng = ctx.rng(2020);
    let n = ctx.vol(4_000, 200_000);
    let alphabet: Vec<char> = "abcXYZ019_ -;\"'\\.\u{e9}\u{4e2d}\u{0}\n/*$".chars().collect();
    let mut cases: Vec<(String, bool)> = vec![
        ("".into(), false), ("a".repeat(48), false), ("a".repeat(49), false), ("_".into(), false), ("a b".into(), false),
        ("ks; DROP KEYSPACE x".into(), false), ("\"ks\"".into(), true), ("ks\"".into(), true), ("K".repeat(48), true), ("K".repeat(49), true),
    ];
    for _ in 0..n {
        let len = match rng.below(8) {
            0 => 0,
            1 => 48,
            2 => 49,
            3 => rng.usize(50, 60),
            _ => rng.usize(1, 47),
        };
        let clean = rng.chance(1, 2);
        let s: String = (0..len).map(|_| if clean { alphabet[rng.below(10) as usize] } else { *rng.pick(&alphabet) }).collect();
        cases.push((s, rng.bool()));
    }
    for (name, cs) in cases {
        let before = handler.use_frames.lock().unwrap().len();
        let frames_before = cluster.log().counter();
        let r = session.use_keyspace(name.clone(), cs).await;
        let frames: Vec<(usize, u64, String, bool)> = handler.use_frames.lock().unwrap()[before..].to_vec();
        let valid = name_is_valid(&name);
        let replay = json!({"part": "validation", "name": name, "case_sensitive": cs});
        o.case(fw::hash64(format!("{name}:{cs}").as_bytes()), true);
        o.class(if valid { "name:valid" } else { "name:invalid" });
        if valid {
            if r.is_err() {
                o.violation("c20:valid-name-refused", format!("use_keyspace({name:?}) failed: {r:?}"), replay.clone());
            }
            let want = if cs { format!("USE \"{name}\"") } else { format!("USE {name}") };
            if frames.is_empty() {
                o.violation("c20:valid-name-sent-nowhere", format!("use_keyspace({name:?}) returned {r:?} but no USE frame reached the node"), replay.clone());
            }
            for (_, _, text, _) in &frames {
                if text.trim_end_matches(';') != want {
                    o.violation("c20:use-statement-not-verbatim", format!("use_keyspace({name:?}, {cs}) produced the statement {text:?}, expected {want:?}"), replay.clone());
                }
            }
        } else {
            if r.is_ok() {
                o.violation("c20:invalid-name-accepted", format!("use_keyspace({name:?}) returned Ok"), replay.clone());
            }
            // rejected locally: nothing at all may reach a node because of this call
            if !frames.is_empty() || cluster.log().counter() != frames_before {
                let tail = cluster.log().tail_text(3);
                // unrelated background frames (keep-alives) would also move the counter: only USE frames count as witnesses
                if !frames.is_empty() {
                    o.violation("c20:invalid-name-reached-a-node", format!("use_keyspace({name:?}) was invalid, yet the node received {:?}", frames.iter().map(|f| f.2.clone()).collect::<Vec<_>>()), replay.clone());
                }
                let _ = tail;
            }
        }
    }
    o.class("validation-part");
    drop(session);
    cluster.shutdown();
}

pub fn run(ctx: &Ctx) -> Outcome {
    let mut out = Outcome::new();
    let rt = runtime(ctx.workers.min(8));
    if let Some(p) = &ctx.replay {
        let v: serde_json::Value = serde_json::from_str(&std::fs::read_to_string(p).expect("replay")).expect("json");
        let r = &v["replay"];
        if r["part"].as_str() == Some("validation") {
            rt.block_on(validation(&mut out, ctx));
            return out;
        }
        let parse = |s: &str| -> Step {
            let inner = s.split('(').nth(1).unwrap_or("").trim_end_matches(')');
            let leak = |x: &str| -> &'static str { Box::leak(x.trim_matches('"').to_string().into_boxed_str()) };
            match s.split('(').next().unwrap() {
                "Use" => {
                    let mut it = inner.split(", ");
                    Step::Use(leak(it.next().unwrap_or("ks")), it.next() == Some("true"))
                }
                "UseFailing" => Step::UseFailing(leak(inner)),
                "UseStatement" => {
                    let mut it = inner.split(", ");
                    Step::UseStatement(leak(it.next().unwrap_or("ks")), it.next() == Some("true"))
                }
                "DownUseUp" => {
                    let mut it = inner.split(", ");
                    let n = it.next().and_then(|x| x.parse().ok()).unwrap_or(1);
                    Step::DownUseUp(n, leak(it.next().unwrap_or("ks")))
                }
                "UseSlow" => {
                    let mut it = inner.split(", ");
                    Step::UseSlow(leak(it.next().unwrap_or("ks")), it.next().and_then(|x| x.parse().ok()).unwrap_or(0))
                }
                "Kill" => Step::Kill(inner.parse().unwrap_or(0)),
                "Restart" => Step::Restart(inner.parse().unwrap_or(0)),
                "AddNode" => Step::AddNode,
                _ => Step::Pause(inner.parse().unwrap_or(10)),
            }
        };
        let h = Hist {
            steps: r["steps"].as_array().map(|a| a.iter().filter_map(|s| s.as_str()).map(parse).collect()).unwrap_or_default(),
            per_shard: r["per_shard"].as_u64().unwrap_or(1) as usize,
            delay_pm: r["delay_pm"].as_u64().unwrap_or(0),
            workers: r["workers"].as_u64().unwrap_or(3) as usize,
            seed: r["seed"].as_u64().unwrap_or(1),
        };
        for _ in 0..5 {
            let ho = rt.block_on(run_hist(&h));
            judge(&mut out, &h, &ho);
        }
        return out;
    }
    let mut rng = ctx.rng(2002);
    let n = ctx.vol(120, 6000);
    let hists: Vec<Hist> = (0..n).map(|i| gen_hist(&mut rng, ctx.seed.wrapping_mul(104729).wrapping_add(i))).collect();
    for chunk in hists.chunks(8) {
        let res: Vec<(Hist, HistOut)> = rt.block_on(async {
            let mut js = Vec::new();
            for h in chunk.iter().cloned() {
                js.push(tokio::spawn(async move {
                    let r = run_hist(&h).await;
                    (h, r)
                }));
            }
            let mut v = Vec::new();
            for j in js {
                if let Ok(x) = j.await {
                    v.push(x);
                }
            }
            v
        });
        for (h, r) in &res {
            judge(&mut out, h, r);
        }
        if fw::stop_early(&mut out) {
            break;
        }
    }
    rt.block_on(validation(&mut out, ctx));
    for c in ["keyspace-given-to-session-builder", "step:Use", "step:Kill", "step:Restart", "step:AddNode", "step:UseFailing", "step:UseSlow", "step:DownUseUp", "step:UseStatement", "history:same-spelling-other-case-sensitivity", "requests-on-connections-opened-after-use", "use:failed-on-some-connection", "requests-on-a-node-that-owns-no-token", "name:valid", "name:invalid", "validation-part"] {
        out.require_class(c);
    }
    out
}
