//! C07 — paged iteration yields every row exactly once, in order, then ends.
//!
//! The mock nodes serve scripted result sets split into arbitrary pages with
//! per-page faults; the checker compares what the row stream delivered with
//! the script, and the node checks the paging state of every page request.

use super::e2e::*;
use crate::fw::{self, Ctx, Outcome, Rng};
use crate::mock::*;
use crate::wire::prim::Value;
use crate::wire::request::Request;
use crate::wire::response::*;
use futures::StreamExt;
use scylla::client::execution_profile::ExecutionProfile;
use scylla::policies::retry::{DefaultRetryPolicy, FallthroughRetryPolicy};
use serde_json::json;
use std::collections::HashMap;
use std::sync::{Arc, Mutex};
use std::time::Duration;

#[derive(Clone, Copy, Debug, PartialEq, Eq)]
enum PageFault {
    None,
    /// first attempt answered with IsBootstrapping (the default policy retries it on the next node)
    RetryableError,
    /// answered with Invalid (no policy retries it)
    NonRetriedError,
    /// first attempt: connection cut in the middle of the page's frame
    CutMidFrame,
    Delay,
    /// first attempt answered UNPREPARED (the coordinator for this page does not know the
    /// statement: eviction, restart, or a switch to a node that never saw it)
    Unprepared,
    /// first attempt: the coordinator goes down (all its connections reset, listener closed) without
    /// answering, and comes back 150 ms later
    NodeDown,
    /// the coordinator answers UNAVAILABLE (1 replica alive) as long as the request asks for more than consistency
    /// ONE; the statement asks for QUORUM and the session's policy is DowngradingConsistencyRetryPolicy, which
    /// retries at ONE: the retry is served, so no row may be lost and no error surface
    UnavailableAboveOne,
}

#[derive(Clone, Debug)]
struct Script {
    qid: u64,
    /// rows per page (values are globally unique)
    pages: Vec<Vec<i64>>,
    /// paging state issued WITH page i (None for the last page)
    states: Vec<Option<Vec<u8>>>,
    faults: Vec<PageFault>,
    prepared: bool,
    /// prepared only: the statement asks the node to leave the result metadata out of every page
    /// (`set_use_cached_result_metadata`), the node answers NO_METADATA pages like a server does
    cached_md: bool,
    idempotent: bool,
    fallthrough: bool,
    /// 0 fast, 1 slow consumer, 2 drops the stream after `drop_after` rows
    consumer: u8,
    drop_after: usize,
    page_size: i32,
}

#[derive(Default)]
struct QState {
    /// attempts seen per page index
    attempts: HashMap<usize, u32>,
    /// highest page index whose response was sent completely
    last_sent: Option<usize>,
    /// page indices in request order
    requested: Vec<usize>,
    violations: Vec<String>,
    finished: bool,
}

struct Pager {
    scripts: Mutex<HashMap<u64, Arc<Script>>>,
    state: Mutex<HashMap<u64, QState>>,
    cluster: Mutex<Option<MockCluster>>,
}

const PAGED_PREFIX: &str = "SELECT n FROM ks.paged WHERE q = ";

fn paged_cols() -> Vec<ColSpec> {
    vec![ColSpec::new("ks", "paged", "n", ColType::BigInt)]
}

fn qid_of(rq: &Rq) -> Option<u64> {
    match &*rq.request {
        Request::Query { query, .. } => query.strip_prefix(PAGED_PREFIX).and_then(|s| s.trim().parse().ok()),
        Request::Execute { params, .. } => match params.values.as_ref()?.first()? {
            Value::Bytes(b) if b.len() == 8 => Some(u64::from_be_bytes(b.as_slice().try_into().unwrap())),
            _ => None,
        },
        _ => None,
    }
}

impl Handler for Pager {
    fn statement(&self, _node: &MockNode, query: &str) -> Option<StatementDef> {
        if query.starts_with(PAGED_PREFIX) {
            let mut d = StatementDef::new(query, &fw::hash_str(query).to_be_bytes());
            d.bind = vec![ColSpec::new("ks", "paged", "q", ColType::BigInt)];
            d.pk_indexes = vec![0];
            d.result = paged_cols();
            Some(d)
        } else {
            None
        }
    }
    fn on_request(&self, rq: Rq) {
        let Some(qid) = qid_of(&rq) else {
            rq.void();
            return;
        };
        let Some(script) = self.scripts.lock().unwrap().get(&qid).cloned() else {
            rq.error(ErrorBody::simple(errcode::INVALID, "unknown query"));
            return;
        };
        let (paging_state, page_size) = match &*rq.request {
            Request::Query { params, .. } | Request::Execute { params, .. } => (params.paging_state.clone(), params.page_size),
            _ => (None, None),
        };
        // which page does this paging state ask for?
        let mut st = self.state.lock().unwrap();
        let q = st.entry(qid).or_default();
        // (two consecutive pages may carry the SAME paging-state bytes - an opaque cursor handle, say: the node
        // then goes by its own progress; otherwise the state identifies the page)
        let idx = match &paging_state {
            None => Some(0),
            Some(ps) => {
                let next = q.last_sent.map(|l| l + 1).unwrap_or(0);
                let cands: Vec<usize> = script.states.iter().enumerate().filter(|(_, s)| s.as_ref() == Some(ps)).map(|(i, _)| i + 1).collect();
                if cands.contains(&next) { Some(next) } else { cands.first().copied() }
            }
        };
        let Some(idx) = idx else {
            q.violations.push(format!("page request carries a paging state the node never issued: {:?}", paging_state.map(|p| fw::hex(&p))));
            drop(st);
            rq.error(ErrorBody::simple(errcode::INVALID, "bad paging state"));
            return;
        };
        if page_size != Some(script.page_size) {
            q.violations.push(format!("page request carries page size {page_size:?}, the statement asked for {}", script.page_size));
        }
        // paging-state discipline: the state presented must be the one issued with the previous page
        // that was delivered (or the same page again after a failed attempt)
        let expected_next = q.last_sent.map(|l| l + 1).unwrap_or(0);
        if idx != expected_next {
            q.violations.push(format!("page {idx} requested while the next page to serve is {expected_next} (requested so far {:?})", q.requested));
        }
        if q.finished {
            q.violations.push(format!("page {idx} requested after the last page (no paging state) had been delivered"));
        }
        q.requested.push(idx);
        let attempt = *q.attempts.entry(idx).and_modify(|a| *a += 1).or_insert(0);
        let fault = script.faults.get(idx).copied().unwrap_or(PageFault::None);
        let rows: Vec<Row> = script.pages[idx].iter().map(|n| vec![Some(n.to_be_bytes().to_vec())]).collect();
        let ps = script.states[idx].clone();
        let is_last = ps.is_none();
        // like a server: a request carrying the skip-metadata flag gets NO_METADATA pages (column count, no specs)
        let skip = match &*rq.request {
            Request::Query { params, .. } | Request::Execute { params, .. } => params.skip_metadata,
            _ => false,
        };
        let metadata = ResultMetadata { columns: paged_cols(), paging_state: ps, no_metadata: skip, global_spec: true, new_metadata_id: None };
        let resp = Response::Result(ResultBody::Rows { metadata, rows });
        match fault {
            PageFault::RetryableError if attempt == 0 => {
                drop(st);
                rq.error(ErrorBody::simple(errcode::IS_BOOTSTRAPPING, "bootstrapping"));
            }
            PageFault::NonRetriedError => {
                drop(st);
                rq.error(ErrorBody::simple(errcode::INVALID, "scripted non-retried failure"));
            }
            PageFault::UnavailableAboveOne
                if match &*rq.request {
                    Request::Query { params, .. } | Request::Execute { params, .. } => params.consistency != 1,
                    _ => false,
                } =>
            {
                drop(st);
                let cl = match &*rq.request {
                    Request::Query { params, .. } | Request::Execute { params, .. } => params.consistency,
                    _ => 0,
                };
                rq.error(ErrorBody { code: errcode::UNAVAILABLE, message: "unavailable".into(), extra: ErrorExtra::Unavailable { cl, required: 2, alive: 1 } });
            }
            PageFault::NodeDown if attempt == 0 => {
                drop(st);
                if let Some(c) = self.cluster.lock().unwrap().clone() {
                    let idx = rq.node.idx;
                    c.stop_node(idx, CloseHow::Rst);
                    tokio::spawn(async move {
                        tokio::time::sleep(Duration::from_millis(150)).await;
                        c.start_node(idx).await;
                    });
                }
            }
            PageFault::Unprepared if attempt == 0 && matches!(&*rq.request, Request::Execute { .. }) => {
                drop(st);
                let id = match &*rq.request {
                    Request::Execute { id, .. } => id.clone(),
                    _ => vec![],
                };
                rq.node.evict(&id);
                rq.error(ErrorBody::unprepared(&id));
            }
            PageFault::CutMidFrame if attempt == 0 => {
                drop(st);
                let len = 9 + resp.encode_body().len();
                rq.conn.arm_cut(9 + (len - 9) / 2, CloseHow::Rst);
                rq.reply(&resp);
            }
            PageFault::Delay => {
                q.last_sent = Some(idx);
                q.finished = is_last;
                drop(st);
                tokio::spawn(async move {
                    tokio::time::sleep(Duration::from_millis(8)).await;
                    rq.reply(&resp);
                });
            }
            _ => {
                q.last_sent = Some(idx);
                q.finished = is_last;
                drop(st);
                rq.reply(&resp);
            }
        }
    }
}

fn gen_script(rng: &mut Rng, qid: u64, exhaustive_fault: Option<(usize, PageFault)>) -> Script {
    let n_pages = match exhaustive_fault {
        Some((i, _)) => rng.usize(i + 1, 6),
        None => match rng.below(6) {
            0 => 1,
            1 => 2,
            _ => rng.usize(2, 12),
        },
    };
    let mut next = (qid as i64) << 20;
    let mut pages = Vec::new();
    for p in 0..n_pages {
        let len = match rng.below(6) {
            0 => 0, // empty page (also as last page)
            1 => 1,
            2 if p == 0 => rng.usize(50, 400), // one big page
            _ => rng.usize(1, 9),
        };
        let mut v = Vec::new();
        for _ in 0..len {
            v.push(next);
            next += 1;
        }
        pages.push(v);
    }
    let mut states = Vec::new();
    for p in 0..n_pages {
        if p + 1 == n_pages {
            states.push(None);
        } else {
            // unique per page; arbitrary bytes incl. empty-looking and long ones
            let mut s = match rng.below(4) {
                0 => vec![],
                1 => rng.bytes(1),
                2 => rng.bytes(300),
                _ => {
                    let n = rng.usize(2, 24);
                    rng.bytes(n)
                }
            };
            s.extend_from_slice(&(p as u32).to_be_bytes());
            states.push(Some(s));
        }
    }
    // legal and unusual: two consecutive non-final pages carrying the very same paging-state bytes
    if n_pages >= 3 && rng.chance(1, 6) {
        let p = rng.usize(0, n_pages - 3);
        states[p + 1] = states[p].clone();
    }
    // legal and unusual: "more pages" with a paging state of length ZERO (at most one page per result, so
    // that the node can still tell the pages apart)
    if n_pages >= 2 && rng.chance(1, 5) {
        let p = rng.usize(0, n_pages - 2);
        states[p] = Some(Vec::new());
    }
    let mut faults = vec![PageFault::None; n_pages];
    match exhaustive_fault {
        Some((i, f)) => faults[i] = f,
        None => {
            for f in faults.iter_mut() {
                *f = match rng.below(10) {
                    0 => PageFault::RetryableError,
                    1 => PageFault::NonRetriedError,
                    2 => PageFault::CutMidFrame,
                    3 => PageFault::Delay,
                    4 => PageFault::Unprepared,
                    5 if rng.chance(1, 2) => PageFault::NodeDown,
                    _ => PageFault::None,
                };
            }
        }
    }
    let consumer = match rng.below(5) {
        0 => 1,
        1 => 2,
        _ => 0,
    };
    let total: usize = pages.iter().map(|p| p.len()).sum();
    Script {
        qid,
        pages,
        states,
        faults,
        prepared: rng.bool(),
        cached_md: rng.chance(1, 3),
        idempotent: rng.bool(),
        fallthrough: rng.chance(1, 4),
        consumer,
        drop_after: rng.usize(0, total.max(1)),
        page_size: *rng.pick(&[1, 5, 5000, 100]),
    }
}

struct ScriptOut {
    delivered: Vec<i64>,
    /// Some(err) when the stream yielded an error, None when it ended (or was dropped)
    error: Option<String>,
    ended: bool,
    dropped: bool,
    requested: Vec<usize>,
    node_violations: Vec<String>,
    protocol_violations: Vec<String>,
    build_error: Option<String>,
    hung: bool,
}

async fn run_script(s: Arc<Script>) -> ScriptOut {
    let handler = Arc::new(Pager { scripts: Mutex::new(HashMap::new()), state: Mutex::new(HashMap::new()), cluster: Mutex::new(None) });
    handler.scripts.lock().unwrap().insert(s.qid, s.clone());
    let spec = ClusterSpec {
        nodes: vec![NodeSpec::simple("dc1", "r1", vec![-100]), NodeSpec::simple("dc1", "r1", vec![0]), NodeSpec::simple("dc1", "r2", vec![100])],
        keyspaces: vec![KeyspaceDef::simple("ks", 3).with_table(TableDef::new("paged", &[("q", "bigint")], &[("n", "bigint")]))],
        cluster_name: "c07".into(),
    };
    let cluster = MockCluster::start(spec, handler.clone()).await;
    *handler.cluster.lock().unwrap() = Some(cluster.clone());
    let mut out = ScriptOut { delivered: vec![], error: None, ended: false, dropped: false, requested: vec![], node_violations: vec![], protocol_violations: vec![], build_error: None, hung: false };
    let downgrading = s.faults.iter().any(|f| *f == PageFault::UnavailableAboveOne);
    let profile = if downgrading {
        ExecutionProfile::builder().retry_policy(Arc::new(scylla::policies::retry::DowngradingConsistencyRetryPolicy::new())).request_timeout(None).build()
    } else if s.fallthrough {
        ExecutionProfile::builder().retry_policy(Arc::new(FallthroughRetryPolicy::new())).request_timeout(None).build()
    } else {
        ExecutionProfile::builder().retry_policy(Arc::new(DefaultRetryPolicy::new())).request_timeout(None).build()
    };
    let session = match connect(&cluster, |b| b.default_execution_profile_handle(profile.into_handle())).await {
        Ok(x) => x,
        Err(e) => {
            out.build_error = Some(e);
            cluster.shutdown();
            return out;
        }
    };
    // wait until every node has a pool connection, so that "next target" exists for retries
    {
        let c = cluster.clone();
        cluster.wait_until(Duration::from_secs(10), move || (0..3).all(|i| !c.established(i).is_empty())).await;
    }
    let work = async {
        let pager = if s.prepared {
            match session.prepare(format!("{PAGED_PREFIX}?")).await {
                Err(e) => return Err(format!("prepare: {e}")),
                Ok(mut p) => {
                    p.set_page_size(s.page_size);
                    p.set_use_cached_result_metadata(s.cached_md);
                    p.set_is_idempotent(s.idempotent);
                    if downgrading {
                        p.set_consistency(scylla::statement::Consistency::Quorum);
                    }
                    session.execute_iter(p, (s.qid as i64,)).await
                }
            }
        } else {
            let mut st = scylla::statement::Statement::new(format!("{PAGED_PREFIX}{}", s.qid));
            st.set_page_size(s.page_size);
            st.set_is_idempotent(s.idempotent);
            if downgrading {
                st.set_consistency(scylla::statement::Consistency::Quorum);
            }
            session.query_iter(st, ()).await
        };
        let mut delivered = Vec::new();
        let pager = match pager {
            Ok(p) => p,
            Err(e) => return Ok((delivered, Some(format!("{e}")), false, false)),
        };
        let mut stream = match pager.rows_stream::<(i64,)>() {
            Ok(s) => s,
            Err(e) => return Err(format!("rows_stream type check: {e}")),
        };
        loop {
            if s.consumer == 2 && delivered.len() >= s.drop_after {
                return Ok((delivered, None, false, true));
            }
            match stream.next().await {
                None => return Ok((delivered, None, true, false)),
                Some(Ok((n,))) => {
                    delivered.push(n);
                    if s.consumer == 1 {
                        tokio::time::sleep(Duration::from_micros(300)).await;
                    }
                }
                Some(Err(e)) => return Ok((delivered, Some(format!("{e}")), false, false)),
            }
        }
    };
    match tokio::time::timeout(Duration::from_secs(30), work).await {
        Err(_) => out.hung = true,
        Ok(Err(e)) => out.build_error = Some(e),
        Ok(Ok((d, e, ended, dropped))) => {
            out.delivered = d;
            out.error = e;
            out.ended = ended;
            out.dropped = dropped;
        }
    }
    // give a prefetching worker a moment, then collect what the nodes saw
    tokio::time::sleep(Duration::from_millis(5)).await;
    drop(session);
    if let Some(q) = handler.state.lock().unwrap().get(&s.qid) {
        out.requested = q.requested.clone();
        out.node_violations = q.violations.clone();
    }
    out.protocol_violations = cluster.log().violations();
    cluster.shutdown();
    out
}

fn judge(o: &mut Outcome, s: &Script, r: &ScriptOut) {
    let replay = json!({"script": {"qid": s.qid, "pages": s.pages, "states": s.states.iter().map(|x| x.as_ref().map(|b| fw::hex(b))).collect::<Vec<_>>(),
        "faults": s.faults.iter().map(|f| format!("{f:?}")).collect::<Vec<_>>(), "prepared": s.prepared, "cached_md": s.cached_md, "idempotent": s.idempotent, "fallthrough": s.fallthrough,
        "consumer": s.consumer, "drop_after": s.drop_after, "page_size": s.page_size},
        "delivered": r.delivered, "error": r.error, "requested": r.requested});
    if let Some(e) = &r.build_error {
        o.inconclusive(format!("script could not run: {e}"));
        return;
    }
    let all: Vec<i64> = s.pages.iter().flatten().copied().collect();
    let key = fw::hash64(format!("{:?}{:?}{:?}{}{}{}{}", s.pages.iter().map(|p| p.len()).collect::<Vec<_>>(), s.faults, s.states.iter().map(|x| x.as_ref().map(|b| b.len())).collect::<Vec<_>>(), s.prepared, s.idempotent, s.fallthrough, s.consumer + 10 * (s.prepared && s.cached_md) as u8).as_bytes());
    o.case(key, s.pages.len() > 1 || !all.is_empty());
    if s.states.windows(2).any(|w| w[0].is_some() && w[0] == w[1]) {
        o.class("paging-state:same-bytes-on-consecutive-pages");
    }
    if s.states.iter().any(|x| x.as_ref().is_some_and(|b| b.is_empty())) {
        o.class("paging-state:zero-length-with-more-pages");
    }
    for f in &s.faults {
        o.class(&format!("fault:{f:?}"));
    }
    o.class(if s.prepared { "pager:execute_iter" } else { "pager:query_iter" });
    if s.prepared && s.cached_md {
        o.class("pager:execute_iter:cached-result-metadata(NO_METADATA pages)");
    }
    o.class(&format!("consumer:{}", ["fast", "slow", "early-drop"][s.consumer as usize]));
    if s.pages.iter().any(|p| p.is_empty()) {
        o.class("page:empty");
    }
    if s.pages.last().map(|p| p.is_empty()).unwrap_or(false) {
        o.class("page:empty-last");
    }
    if s.pages.len() == 1 {
        o.class("page:single");
    }
    if r.hung {
        o.violation("c07:row-stream-never-ends", "the row stream neither yielded, failed nor ended within 30 s although the nodes had answered every request", replay.clone());
        return;
    }
    for v in &r.node_violations {
        let sig = if v.contains("never issued") {
            "c07:paging-state-unknown"
        } else if v.contains("after the last page") {
            "c07:page-requested-after-end"
        } else if v.contains("page size") {
            "c07:wrong-page-size"
        } else {
            "c07:paging-state-out-of-sequence"
        };
        o.violation(sig, format!("query {}: {v}", s.qid), replay.clone());
    }
    for v in &r.protocol_violations {
        o.node_violation("c07", &v, replay.clone());
    }
    // delivered rows: a prefix of the script's concatenation, each once, in order
    if r.delivered.len() > all.len() || r.delivered[..] != all[..r.delivered.len()] {
        let kind = {
            let mut d = r.delivered.clone();
            d.sort_unstable();
            let dup = d.windows(2).any(|w| w[0] == w[1]);
            if dup { "c07:row-duplicated" } else { "c07:rows-lost-or-reordered" }
        };
        o.violation(kind, format!("delivered rows are not a prefix of the pages in server order: got {} rows {:?}…, expected prefix of {:?}…", r.delivered.len(), &r.delivered[..r.delivered.len().min(12)], &all[..all.len().min(12)]), replay.clone());
        return;
    }
    if r.ended {
        o.class("end:complete");
        if r.delivered.len() != all.len() {
            o.violation("c07:stream-ended-early", format!("the stream ended after {} of {} rows without an error", r.delivered.len(), all.len()), replay.clone());
        }
    } else if let Some(e) = &r.error {
        o.class("end:error");
        // the failing page is the highest page index the nodes were asked for;
        // all rows of earlier pages must have been delivered before the error surfaced
        let failing = r.requested.iter().copied().max().unwrap_or(0);
        let before: usize = s.pages[..failing.min(s.pages.len())].iter().map(|p| p.len()).sum();
        if r.delivered.len() != before {
            o.violation("c07:error-not-after-earlier-pages", format!("the stream failed ({e}) after delivering {} rows, but the pages before the failing page {failing} hold {before} rows", r.delivered.len()), replay.clone());
        }
        // an error without any scripted fault that could explain it
        if !s.faults.iter().any(|f| matches!(f, PageFault::NonRetriedError | PageFault::CutMidFrame | PageFault::RetryableError | PageFault::NodeDown)) {
            o.violation("c07:error-without-fault", format!("the stream failed ({e}) although no page was scripted to fail"), replay.clone());
        }
    } else if r.dropped {
        o.class("end:consumer-dropped");
    }
    if o.want_sample() {
        o.sample(json!({"pages": s.pages.iter().map(|p| p.len()).collect::<Vec<_>>(), "faults": s.faults.iter().map(|f| format!("{f:?}")).collect::<Vec<_>>(),
            "delivered": r.delivered.len(), "error": r.error, "page_requests": r.requested}));
    }
    o.note_add("rows_delivered", r.delivered.len() as u64);
    o.note_add("page_requests", r.requested.len() as u64);
}

/// The control connection's pager: metadata fetch whose system tables span several pages (page size 1024).
async fn control_connection_pager(o: &mut Outcome, n_keyspaces: usize, awkward: bool) {
    let mut spec = single_node_spec();
    for i in 0..n_keyspaces {
        spec.keyspaces.push(KeyspaceDef::simple(&format!("ks_{i:05}"), 1).with_table(TableDef::new("t", &[("pk", "int")], &[("v", "text")])));
    }
    let want: std::collections::BTreeSet<String> = spec.keyspaces.iter().map(|k| k.name.clone()).collect();
    let cluster = MockCluster::start(spec, Arc::new(DefaultHandler)).await;
    if awkward {
        // pages shorter than asked for; empty pages that still carry a paging state (also the first one)
        cluster.awkward_system_paging();
    }
    match connect(&cluster, |b| b).await {
        Err(e) => o.inconclusive(format!("control-connection pager case could not start: {e}")),
        Ok(session) => {
            let st = session.get_cluster_state();
            let got: std::collections::BTreeSet<String> = st.keyspaces_iter().map(|(k, _)| k.to_string()).collect();
            o.case(fw::hash64(format!("cc:{n_keyspaces}").as_bytes()), true);
            o.class(if awkward { "pager:control-connection:empty-pages-with-paging-state" } else { "pager:control-connection" });
            if got != want {
                let missing: Vec<_> = want.difference(&got).take(5).cloned().collect();
                let extra: Vec<_> = got.difference(&want).take(5).cloned().collect();
                o.violation("c07:control-connection-pager-lost-rows", format!("metadata fetched through the control connection's pager names {} keyspaces, the node serves {} (missing {missing:?}, extra {extra:?})", got.len(), want.len()), json!({"n_keyspaces": n_keyspaces}));
            }
            let tables: usize = st.keyspaces_iter().map(|(_, k)| k.tables.len()).sum();
            if tables != want.len() {
                o.violation("c07:control-connection-pager-lost-rows", format!("{tables} tables known, {} served", want.len()), json!({"n_keyspaces": n_keyspaces}));
            }
        }
    }
    for v in cluster.log().violations() {
        o.node_violation("c07", &v, json!({}));
    }
    cluster.shutdown();
}

// ---------------------------------------------------------------------------
// A response that arrives after its page request was given up (client-side timeout)
// ---------------------------------------------------------------------------
//
// Query A's page k is answered only much later than the statement's request timeout: A's stream must
// deliver the rows of the earlier pages and then the error. Meanwhile query B runs on the SAME
// connection (one node, one pool connection); the node sends A's late answer right before one of B's
// pages. B must still deliver exactly its own rows, in order, and end.

struct LatePager {
    /// (pages of A, pages of B)
    pages: [Vec<Vec<i64>>; 2],
    stall_at: usize,
    release_before_b_page: usize,
    held: Mutex<Option<Rq>>,
    requested: Mutex<[Vec<usize>; 2]>,
}

const LATE_PREFIX: &str = "SELECT n FROM ks.paged WHERE late = ";

impl Handler for LatePager {
    fn on_request(&self, rq: Rq) {
        let (q, ps) = match &*rq.request {
            Request::Query { query, params } => (query.strip_prefix(LATE_PREFIX).and_then(|s| s.trim().parse::<usize>().ok()), params.paging_state.clone()),
            _ => (None, None),
        };
        let Some(q) = q.filter(|q| *q < 2) else {
            rq.void();
            return;
        };
        let idx = match ps {
            None => 0,
            Some(b) => std::str::from_utf8(&b).ok().and_then(|t| t.strip_prefix("late-")).and_then(|t| t.parse::<usize>().ok()).unwrap_or(usize::MAX),
        };
        self.requested.lock().unwrap()[q].push(idx);
        let pages = &self.pages[q];
        if idx >= pages.len() {
            rq.error(ErrorBody::simple(errcode::INVALID, "bad paging state"));
            return;
        }
        let answer = |rq: &Rq, pages: &Vec<Vec<i64>>, idx: usize| {
            let rows: Vec<Row> = pages[idx].iter().map(|n| vec![Some(n.to_be_bytes().to_vec())]).collect();
            let next = if idx + 1 < pages.len() { Some(format!("late-{}", idx + 1).into_bytes()) } else { None };
            rq.rows(paged_cols(), rows, next);
        };
        if q == 0 && idx == self.stall_at {
            // withheld: answered right before one of B's pages
            *self.held.lock().unwrap() = Some(rq);
            return;
        }
        if q == 1 && idx == self.release_before_b_page {
            if let Some(late) = self.held.lock().unwrap().take() {
                answer(&late, &self.pages[0], self.stall_at);
            }
        }
        answer(&rq, pages, idx);
    }
}

struct LateOut {
    error: Option<String>,
    a_rows: Vec<i64>,
    a_error: Option<String>,
    a_ended: bool,
    b_rows: Vec<i64>,
    b_error: Option<String>,
    b_ended: bool,
    protocol_violations: Vec<String>,
}

async fn run_late_response(seed: u64) -> (Arc<LatePager>, LateOut) {
    use futures::StreamExt;
    let mut rng = Rng::new(seed, 71);
    let mut next = 1i64;
    let mut mk = |rng: &mut Rng, n_pages: usize| -> Vec<Vec<i64>> {
        (0..n_pages)
            .map(|_| {
                (0..rng.usize(0, 3))
                    .map(|_| {
                        next += 1;
                        next
                    })
                    .collect()
            })
            .collect()
    };
    let (na, nb) = (rng.usize(2, 5), rng.usize(2, 6));
    let a = mk(&mut rng, na);
    let b = mk(&mut rng, nb);
    let stall_at = rng.usize(1, a.len() - 1);
    let release_before_b_page = rng.usize(0, b.len() - 1);
    let h = Arc::new(LatePager { pages: [a, b], stall_at, release_before_b_page, held: Mutex::new(None), requested: Mutex::new([vec![], vec![]]) });
    let mut out = LateOut { error: None, a_rows: vec![], a_error: None, a_ended: false, b_rows: vec![], b_error: None, b_ended: false, protocol_violations: vec![] };
    let spec = ClusterSpec {
        nodes: vec![NodeSpec::simple("dc1", "r1", vec![0])],
        keyspaces: vec![KeyspaceDef::simple("ks", 1).with_table(TableDef::new("paged", &[("late", "bigint")], &[("n", "bigint")]))],
        cluster_name: "c07-late".into(),
    };
    let cluster = MockCluster::start(spec, h.clone()).await;
    let profile = ExecutionProfile::builder().retry_policy(Arc::new(FallthroughRetryPolicy::new())).request_timeout(None).build();
    let session = match connect(&cluster, |b| b.default_execution_profile_handle(profile.into_handle()).pool_size(scylla::client::PoolSize::PerHost(std::num::NonZeroUsize::new(1).unwrap()))).await {
        Ok(s) => s,
        Err(e) => {
            out.error = Some(e);
            cluster.shutdown();
            return (h, out);
        }
    };
    {
        let c = cluster.clone();
        cluster.wait_until(Duration::from_secs(10), move || c.established(0).iter().any(|x| !x.registered.load(std::sync::atomic::Ordering::SeqCst))).await;
    }
    // A: gives up on its stalled page after 80 ms
    let mut st = scylla::statement::Statement::new(format!("{LATE_PREFIX}0"));
    st.set_page_size(2);
    st.set_request_timeout(Some(Duration::from_millis(80)));
    match tokio::time::timeout(Duration::from_secs(20), session.query_iter(st, ())).await {
        Ok(Ok(p)) => match p.rows_stream::<(i64,)>() {
            Ok(mut rows) => loop {
                match tokio::time::timeout(Duration::from_secs(20), rows.next()).await {
                    Err(_) => {
                        out.error = Some("query A did not come back within 20 s".into());
                        break;
                    }
                    Ok(None) => {
                        out.a_ended = true;
                        break;
                    }
                    Ok(Some(Ok((n,)))) => out.a_rows.push(n),
                    Ok(Some(Err(e))) => {
                        out.a_error = Some(e.to_string());
                        break;
                    }
                }
            },
            Err(e) => out.error = Some(format!("rows_stream A: {e}")),
        },
        other => out.error = Some(format!("query A did not start: {:?}", other.map(|r| r.map(|_| ()).map_err(|e| e.to_string())))),
    }
    // B: same connection, while A's answer is still owed
    if out.error.is_none() {
        let mut st = scylla::statement::Statement::new(format!("{LATE_PREFIX}1"));
        st.set_page_size(2);
        match tokio::time::timeout(Duration::from_secs(20), session.query_iter(st, ())).await {
            Ok(Ok(p)) => match p.rows_stream::<(i64,)>() {
                Ok(mut rows) => loop {
                    match tokio::time::timeout(Duration::from_secs(20), rows.next()).await {
                        Err(_) => {
                            out.b_error = Some("no item within 20 s (stream hangs)".into());
                            break;
                        }
                        Ok(None) => {
                            out.b_ended = true;
                            break;
                        }
                        Ok(Some(Ok((n,)))) => out.b_rows.push(n),
                        Ok(Some(Err(e))) => {
                            out.b_error = Some(e.to_string());
                            break;
                        }
                    }
                    if out.b_rows.len() > 200 {
                        out.b_error = Some("more than 200 rows".into());
                        break;
                    }
                },
                Err(e) => out.b_error = Some(format!("rows_stream: {e}")),
            },
            Ok(Err(e)) => out.b_error = Some(e.to_string()),
            Err(_) => out.b_error = Some("query_iter did not return within 20 s".into()),
        }
    }
    out.protocol_violations = cluster.log().violations();
    drop(session);
    cluster.shutdown();
    (h, out)
}

fn judge_late(o: &mut Outcome, seed: u64, h: &LatePager, r: &LateOut) {
    if let Some(e) = &r.error {
        o.inconclusive(format!("late-response case could not run: {e}"));
        return;
    }
    let replay = json!({"late_response_seed": seed, "pages_a": h.pages[0], "pages_b": h.pages[1], "a_stalls_at_page": h.stall_at, "late_answer_sent_before_b_page": h.release_before_b_page,
        "a": {"rows": r.a_rows, "error": r.a_error, "ended": r.a_ended}, "b": {"rows": r.b_rows, "error": r.b_error, "ended": r.b_ended}, "requested": format!("{:?}", h.requested.lock().unwrap())});
    o.case(fw::hash64(format!("late:{seed}").as_bytes()), true);
    o.class("fault:late-answer-after-client-timeout");
    for v in &r.protocol_violations {
        o.node_violation("c07", v, replay.clone());
    }
    // A: the rows of the pages before the stalled one, then the error
    let a_want: Vec<i64> = h.pages[0][..h.stall_at].iter().flatten().copied().collect();
    if r.a_rows != a_want || r.a_error.is_none() {
        o.violation("c07:late:rows-before-the-failed-page", format!("query A (page {} never answered in time): delivered {:?} then {:?}; the earlier pages hold {a_want:?} and the failure must surface as an error after them", h.stall_at, r.a_rows, r.a_error), replay.clone());
    }
    // B: exactly its own rows
    let b_want: Vec<i64> = h.pages[1].iter().flatten().copied().collect();
    if r.b_rows != b_want || !r.b_ended || r.b_error.is_some() {
        let foreign: Vec<i64> = r.b_rows.iter().copied().filter(|n| !b_want.contains(n)).collect();
        let sig = if !foreign.is_empty() { "c07:late:foreign-rows-delivered" } else if r.b_error.is_some() { "c07:late:stream-failed-on-a-healthy-node" } else { "c07:late:rows-lost-or-reordered" };
        o.violation(sig, format!("query B ran on the connection that still owed query A's late answer: delivered {:?} (ended {}, error {:?}), its pages hold {b_want:?}", r.b_rows, r.b_ended, r.b_error), replay.clone());
    } else {
        o.class("late-answer:other-stream-undisturbed");
    }
}

pub fn run(ctx: &Ctx) -> Outcome {
    let mut out = Outcome::new();
    let rt = runtime(ctx.workers.min(8));
    let mut rng = ctx.rng(707);
    let mut scripts: Vec<Script> = Vec::new();
    let mut qid = 1u64;
    // fault enumeration: every fault kind at every page index of scripts of up to 6 pages
    for f in [PageFault::RetryableError, PageFault::NonRetriedError, PageFault::CutMidFrame, PageFault::Delay, PageFault::Unprepared, PageFault::NodeDown, PageFault::UnavailableAboveOne] {
        for i in 0..6 {
            for _ in 0..(if ctx.quick() { 2 } else { 12 }) {
                scripts.push(gen_script(&mut rng, qid, Some((i, f))));
                qid += 1;
            }
        }
    }
    let random = ctx.vol(300, 20_000);
    for _ in 0..random {
        scripts.push(gen_script(&mut rng, qid, None));
        qid += 1;
    }
    if let Some(p) = &ctx.replay {
        let v: serde_json::Value = serde_json::from_str(&std::fs::read_to_string(p).expect("replay")).expect("json");
        let r = &v["replay"]["script"];
        let parse_fault = |s: &str| match s {
            "RetryableError" => PageFault::RetryableError,
            "NonRetriedError" => PageFault::NonRetriedError,
            "CutMidFrame" => PageFault::CutMidFrame,
            "Delay" => PageFault::Delay,
            "Unprepared" => PageFault::Unprepared,
            "NodeDown" => PageFault::NodeDown,
            "UnavailableAboveOne" => PageFault::UnavailableAboveOne,
            _ => PageFault::None,
        };
        let s = Script {
            qid: r["qid"].as_u64().unwrap_or(1),
            pages: r["pages"].as_array().map(|a| a.iter().map(|p| p.as_array().map(|x| x.iter().filter_map(|n| n.as_i64()).collect()).unwrap_or_default()).collect()).unwrap_or_default(),
            states: r["states"].as_array().map(|a| a.iter().map(|s| s.as_str().map(fw::unhex)).collect()).unwrap_or_default(),
            faults: r["faults"].as_array().map(|a| a.iter().map(|f| parse_fault(f.as_str().unwrap_or(""))).collect()).unwrap_or_default(),
            prepared: r["prepared"].as_bool().unwrap_or(false),
            cached_md: r["cached_md"].as_bool().unwrap_or(false),
            idempotent: r["idempotent"].as_bool().unwrap_or(false),
            fallthrough: r["fallthrough"].as_bool().unwrap_or(false),
            consumer: r["consumer"].as_u64().unwrap_or(0) as u8,
            drop_after: r["drop_after"].as_u64().unwrap_or(0) as usize,
            page_size: r["page_size"].as_i64().unwrap_or(5) as i32,
        };
        for _ in 0..5 {
            let s = Arc::new(s.clone());
            let r = rt.block_on(run_script(s.clone()));
            judge(&mut out, &s, &r);
        }
        return out;
    }
    let conc = 10;
    for chunk in scripts.chunks(conc) {
        let res: Vec<(Arc<Script>, ScriptOut)> = rt.block_on(async {
            let mut js = Vec::new();
            for s in chunk.iter().cloned() {
                let s = Arc::new(s);
                js.push(tokio::spawn(async move {
                    let r = run_script(s.clone()).await;
                    (s, r)
                }));
            }
            let mut v = Vec::new();
            for j in js {
                if let Ok(x) = j.await {
                    v.push(x);
                }
            }
            v
        });
        for (s, r) in &res {
            judge(&mut out, s, r);
        }
        if fw::stop_early(&mut out) {
            out.note("stopped_early_after_violations", json!(true));
            break;
        }
    }
    if out.violations.is_empty() {
        let n = ctx.vol(40, 1500);
        let seeds: Vec<u64> = (0..n).map(|i| ctx.seed.wrapping_mul(6007).wrapping_add(i)).collect();
        for chunk in seeds.chunks(8) {
            let res = rt.block_on(async {
                let mut js = Vec::new();
                for s in chunk.iter().copied() {
                    js.push(tokio::spawn(async move { (s, run_late_response(s).await) }));
                }
                let mut v = Vec::new();
                for j in js {
                    if let Ok(x) = j.await {
                        v.push(x);
                    }
                }
                v
            });
            for (s, (h, r)) in &res {
                judge_late(&mut out, *s, h, r);
            }
            if fw::stop_early(&mut out) {
                break;
            }
        }
    }
    rt.block_on(control_connection_pager(&mut out, if ctx.quick() { 1500 } else { 5200 }, false));
    rt.block_on(control_connection_pager(&mut out, if ctx.quick() { 1300 } else { 4100 }, true));
    for c in [
        "fault:RetryableError",
        "fault:NonRetriedError",
        "fault:CutMidFrame",
        "fault:Delay",
        "fault:Unprepared",
        "fault:NodeDown",
        "fault:UnavailableAboveOne",
        "paging-state:zero-length-with-more-pages",
        "paging-state:same-bytes-on-consecutive-pages",
        "fault:late-answer-after-client-timeout",
        "late-answer:other-stream-undisturbed",
        "pager:execute_iter",
        "pager:execute_iter:cached-result-metadata(NO_METADATA pages)",
        "pager:query_iter",
        "pager:control-connection",
        "pager:control-connection:empty-pages-with-paging-state",
        "consumer:slow",
        "consumer:early-drop",
        "page:empty",
        "page:empty-last",
        "page:single",
        "end:complete",
        "end:error",
    ] {
        out.require_class(c);
    }
    out.exhaustive = Some(false);
    out
}
