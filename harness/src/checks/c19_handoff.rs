//! C19 part d — what the producer merges into the hand-off slot is what the consumer takes out.
//!
//! The slot holds one `MetadataUpdate`; the metadata worker fills it only through the `merge_*`
//! constructors (full fetch, partial topology fetch, partial client-routes fetch, UP / DOWN hints),
//! possibly several times before the cluster worker takes the value. The hook
//! `verif_hooks::handoff::run` drives the REAL constructors on a slot; this monitor replays the same
//! history on a reference model written from the documented merge rules and compares every value
//! the consumer takes:
//!
//!  * a full fetch replaces whatever is pending (it subsumes older partial results) but keeps the
//!    refresh responders of an older pending full fetch - each responder is carried by exactly one
//!    received value;
//!  * a partial topology fetch always carries the whole peer list: the latest one merged before the
//!    take is the one observed (inside the pending full fetch if there is one, next to the pending
//!    client-routes update otherwise);
//!  * client-routes updates merge per (host, connection): the latest entry of every pair merged
//!    since the last take (and not subsumed by a later full fetch) is observed, applied to the
//!    snapshot of a pending full fetch if there is one;
//!  * hints: the latest hint per address.
//!
//! Histories: every sequence over a small alphabet up to a length bound (exhaustive), then random
//! longer ones.

use crate::fw::{self, Ctx, Outcome, Rng};
use scylla::verif_hooks::handoff::{self, Observed, Step};
use serde_json::json;
use std::collections::BTreeMap;

#[derive(Clone, Debug, Default)]
struct Model {
    hints: BTreeMap<u8, bool>,
    changes: Changes,
}

#[derive(Clone, Debug, Default)]
enum Changes {
    #[default]
    Nothing,
    Full { peers: Vec<u8>, routes: Option<BTreeMap<(u8, u8), u16>>, responders: usize },
    Partial { peers: Option<Vec<u8>>, routes: Option<BTreeMap<(u8, u8), Option<u16>>> },
}

impl Model {
    fn is_empty(&self) -> bool {
        self.hints.is_empty() && matches!(self.changes, Changes::Nothing)
    }
    fn apply(&mut self, s: &Step) -> Option<Option<Observed>> {
        match s {
            Step::Full { peers, routes, refresh_requested } => {
                let r = usize::from(*refresh_requested);
                let snap = routes.as_ref().map(|v| v.iter().map(|(h, c, p)| ((*h, *c), *p)).collect::<BTreeMap<_, _>>());
                self.changes = match std::mem::take(&mut self.changes) {
                    Changes::Full { responders, .. } => Changes::Full { peers: peers.clone(), routes: snap, responders: responders + r },
                    _ => Changes::Full { peers: peers.clone(), routes: snap, responders: r },
                };
                None
            }
            Step::Topology { peers } => {
                self.changes = match std::mem::take(&mut self.changes) {
                    Changes::Nothing => Changes::Partial { peers: Some(peers.clone()), routes: None },
                    Changes::Partial { routes, .. } => Changes::Partial { peers: Some(peers.clone()), routes },
                    Changes::Full { routes, responders, .. } => Changes::Full { peers: peers.clone(), routes, responders },
                };
                None
            }
            Step::Routes { entries } => {
                self.changes = match std::mem::take(&mut self.changes) {
                    Changes::Nothing => Changes::Partial { peers: None, routes: Some(entries.iter().map(|(h, c, p)| ((*h, *c), *p)).collect()) },
                    Changes::Partial { peers, routes } => {
                        let mut m = routes.unwrap_or_default();
                        for (h, c, p) in entries {
                            m.insert((*h, *c), *p);
                        }
                        Changes::Partial { peers, routes: Some(m) }
                    }
                    Changes::Full { peers, routes, responders } => {
                        // applied to the pending snapshot; without configured client routes there is nothing to apply to
                        let routes = routes.map(|mut m| {
                            for (h, c, p) in entries {
                                match p {
                                    Some(p) => {
                                        m.insert((*h, *c), *p);
                                    }
                                    None => {
                                        m.remove(&(*h, *c));
                                    }
                                }
                            }
                            m
                        });
                        Changes::Full { peers, routes, responders }
                    }
                };
                None
            }
            Step::Up(a) => {
                self.hints.insert(*a, true);
                None
            }
            Step::Down(a) => {
                self.hints.insert(*a, false);
                None
            }
            Step::Recv => {
                if self.is_empty() {
                    return Some(None);
                }
                let m = std::mem::take(self);
                let mut o = Observed { hints: m.hints.into_iter().collect(), ..Default::default() };
                match m.changes {
                    Changes::Nothing => {}
                    Changes::Full { peers, routes, responders } => o.full = Some((peers, routes.map(|m| m.into_iter().map(|((h, c), p)| (h, c, p)).collect()), responders)),
                    Changes::Partial { peers, routes } => {
                        o.partial_peers = peers;
                        o.partial_routes = routes.map(|m| m.into_iter().map(|((h, c), p)| (h, c, p)).collect());
                    }
                }
                Some(Some(o))
            }
        }
    }
}

fn show(s: &Step) -> String {
    format!("{s:?}")
}

fn classify(o: &mut Outcome, steps: &[Step]) {
    let mut pending: Vec<&Step> = Vec::new();
    for s in steps {
        match s {
            Step::Recv => {
                let has = |f: fn(&Step) -> bool| pending.iter().any(|x| f(x));
                let full = has(|x| matches!(x, Step::Full { .. }));
                let topo = has(|x| matches!(x, Step::Topology { .. }));
                let routes = has(|x| matches!(x, Step::Routes { .. }));
                if pending.len() >= 2 {
                    o.class("d:several-updates-merged-before-one-take");
                }
                if full && topo {
                    o.class("d:topology-and-full-fetch-in-one-value");
                }
                if full && routes {
                    o.class("d:client-routes-and-full-fetch-in-one-value");
                }
                if topo && routes && !full {
                    o.class("d:topology-and-client-routes-partial-in-one-value");
                }
                if pending.iter().filter(|x| matches!(x, Step::Full { refresh_requested: true, .. })).count() >= 2 {
                    o.class("d:several-refresh-responders-in-one-value");
                }
                if pending.is_empty() {
                    o.class("d:take-from-empty-slot");
                }
                pending.clear();
            }
            other => pending.push(other),
        }
    }
}

/// Compares the driver with the model on one history; reports the first difference.
fn eval(o: &mut Outcome, steps: &[Step], origin: &str) {
    let got = match fw::catch(|| handoff::run(steps)) {
        Ok(g) => g,
        Err(p) => {
            o.violation("c19d:handoff:panic", format!("merging into the hand-off slot panicked: {p}; history {:?}", steps.iter().map(show).collect::<Vec<_>>()), json!({"part": "d", "origin": origin, "steps": steps.iter().map(show).collect::<Vec<_>>()}));
            return;
        }
    };
    let mut m = Model::default();
    let mut want = Vec::new();
    for s in steps {
        if let Some(w) = m.apply(s) {
            want.push(w);
        }
    }
    classify(o, steps);
    let replay = json!({"part": "d", "origin": origin, "steps": steps.iter().map(show).collect::<Vec<_>>()});
    if got.len() != want.len() {
        o.violation("c19d:handoff:take-count", format!("{} takes in the history, the hook reports {}", want.len(), got.len()), replay);
        return;
    }
    for (k, (g, w)) in got.iter().zip(want.iter()).enumerate() {
        if g == w {
            continue;
        }
        let sig = match (g, w) {
            (None, Some(_)) => "c19d:handoff:pending-update-not-observed",
            (Some(_), None) => "c19d:handoff:value-observed-although-nothing-was-merged",
            (Some(g), Some(w)) => {
                if g.hints != w.hints {
                    "c19d:handoff:status-hints-differ"
                } else if g.full.as_ref().map(|f| f.2) != w.full.as_ref().map(|f| f.2) {
                    "c19d:handoff:refresh-responders-lost-or-duplicated"
                } else if g.full.as_ref().map(|f| &f.0) != w.full.as_ref().map(|f| &f.0) || g.partial_peers != w.partial_peers {
                    "c19d:handoff:observed-topology-is-not-the-latest-merged"
                } else {
                    "c19d:handoff:client-routes-update-lost-or-altered"
                }
            }
            (None, None) => unreachable!(),
        };
        o.violation(
            sig,
            format!("take #{k}: the consumer observes {g:?}; merged in since the previous take (documented merge rules): {w:?}; history {:?}", steps.iter().map(show).collect::<Vec<_>>()),
            replay,
        );
        return;
    }
}

fn alphabet() -> Vec<Step> {
    vec![
        Step::Full { peers: vec![1, 2, 3], routes: Some(vec![(1, 1, 100), (2, 1, 200)]), refresh_requested: false },
        Step::Full { peers: vec![1, 2], routes: Some(vec![(1, 1, 101)]), refresh_requested: true },
        Step::Full { peers: vec![1, 4], routes: None, refresh_requested: true },
        Step::Topology { peers: vec![1, 2] },
        Step::Topology { peers: vec![1, 2, 3, 5] },
        Step::Routes { entries: vec![(1, 1, Some(111))] },
        Step::Routes { entries: vec![(2, 1, None), (3, 2, Some(333))] },
        Step::Up(7),
        Step::Down(7),
        Step::Recv,
    ]
}

fn random_step(rng: &mut Rng) -> Step {
    let peers = |rng: &mut Rng| -> Vec<u8> {
        let n = rng.usize(0, 6);
        let mut v: Vec<u8> = (0..n).map(|_| rng.below(8) as u8 + 1).collect();
        v.sort();
        v.dedup();
        if rng.bool() {
            v.reverse();
        }
        v
    };
    match rng.below(10) {
        0 | 1 => {
            let routes = if rng.chance(3, 4) {
                let mut m = BTreeMap::new();
                for _ in 0..rng.usize(0, 4) {
                    m.insert((rng.below(4) as u8 + 1, rng.below(3) as u8 + 1), 1000 + rng.below(50) as u16);
                }
                Some(m.into_iter().map(|((h, c), p)| (h, c, p)).collect())
            } else {
                None
            };
            Step::Full { peers: peers(rng), routes, refresh_requested: rng.bool() }
        }
        2 | 3 => Step::Topology { peers: peers(rng) },
        4 | 5 => {
            let mut m = BTreeMap::new();
            for _ in 0..rng.usize(1, 3) {
                m.insert((rng.below(4) as u8 + 1, rng.below(3) as u8 + 1), if rng.chance(1, 3) { None } else { Some(2000 + rng.below(50) as u16) });
            }
            Step::Routes { entries: m.into_iter().map(|((h, c), p)| (h, c, p)).collect() }
        }
        6 => Step::Up(rng.below(3) as u8 + 1),
        7 => Step::Down(rng.below(3) as u8 + 1),
        _ => Step::Recv,
    }
}

pub fn run(ctx: &Ctx) -> Outcome {
    let mut o = Outcome::new();
    // exhaustive over the alphabet up to the bound, each followed by a final take
    let alpha = alphabet();
    let bound = if ctx.miri() { 2 } else if ctx.quick() { 5 } else { 6 };
    let mut idx = vec![0usize; 0];
    let mut count = 0u64;
    for len in 1..=bound {
        idx.clear();
        idx.resize(len, 0);
        loop {
            let mut steps: Vec<Step> = idx.iter().map(|i| alpha[*i].clone()).collect();
            steps.push(Step::Recv);
            eval(&mut o, &steps, "exhaustive");
            o.case(fw::hash64(format!("d:{idx:?}").as_bytes()), len >= 2);
            count += 1;
            // next
            let mut k = len;
            loop {
                if k == 0 {
                    break;
                }
                k -= 1;
                idx[k] += 1;
                if idx[k] < alpha.len() {
                    break;
                }
                idx[k] = 0;
                if k == 0 {
                    k = usize::MAX;
                    break;
                }
            }
            if k == usize::MAX || !o.violations.is_empty() && count % 1000 == 0 {
                break;
            }
        }
    }
    o.note("d_exhaustive_histories", json!(count));
    // random longer histories
    let n = if ctx.miri() { 20 } else { ctx.vol(100_000, 3_000_000) };
    let mut rng = ctx.rng(1944);
    for i in 0..n {
        let len = rng.usize(3, 24);
        let mut steps: Vec<Step> = (0..len).map(|_| random_step(&mut rng)).collect();
        steps.push(Step::Recv);
        eval(&mut o, &steps, "random");
        o.case(fw::hash64(format!("d:r:{}:{i}", ctx.seed).as_bytes()), true);
        if !o.violations.is_empty() && i % 500 == 0 {
            break;
        }
    }
    o.sample(json!({"part": "d", "history": ["Full{peers [1,2,3], refresh requested}", "Topology{peers [1,2]}", "Routes{(1,c1) -> 111}", "Recv"],
        "oracle": "one value: full fetch with peers [1,2] (the newer topology), the route applied to its snapshot, 1 refresh responder"}));
    for c in [
        "d:several-updates-merged-before-one-take",
        "d:topology-and-full-fetch-in-one-value",
        "d:client-routes-and-full-fetch-in-one-value",
        "d:topology-and-client-routes-partial-in-one-value",
        "d:several-refresh-responders-in-one-value",
        "d:take-from-empty-slot",
    ] {
        o.require_class(c);
    }
    o
}
