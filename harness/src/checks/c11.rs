//! C11 — shard of a token and shard-aware source ports match ScyllaDB's algorithm.
use crate::fw::{self, Ctx, Outcome, Rng};
use crate::refmodel::sharding as model;
use scylla::routing::{ShardAwarePortRange, Sharder, Token};
use scylla::verif_hooks as hooks;
use serde_json::json;
use std::num::NonZeroU16;

fn sharder(n: u16, msb: u8) -> Sharder {
    Sharder::new(NonZeroU16::new(n).unwrap(), msb)
}

fn token_pool(rng: &mut Rng) -> Vec<i64> {
    let mut t = vec![
        i64::MIN,
        i64::MIN + 1,
        -1,
        0,
        1,
        i64::MAX - 1,
        i64::MAX,
        i64::MIN / 2,
        i64::MAX / 2,
        i64::MAX / 2 + 1,
        -(1 << 62),
        1 << 62,
        (1 << 62) - 1,
    ];
    for _ in 0..12 {
        t.push(rng.u64() as i64);
    }
    t
}

/// Tokens on both sides of every shard boundary: the smallest biased token whose shard is k is
/// ceil(k * 2^64 / n) >> msb (plus any value of the ignored top bits).
fn shard_boundary_tokens(n: u16, msb: u8, rng: &mut Rng, max_k: usize) -> Vec<i64> {
    let mut out = Vec::new();
    let ks: Vec<u32> = if (n as usize) <= max_k { (1..n as u32).collect() } else { (0..max_k).map(|_| 1 + rng.below(n as u64 - 1) as u32).collect() };
    for k in ks {
        // ceil(k * 2^64 / n)
        let num: u128 = (k as u128) << 64;
        let b: u128 = num.div_ceil(n as u128);
        let shifted = b as u64;
        // biased << msb must reach `shifted`: biased = ceil(shifted / 2^msb) in the low (64 - msb) bits
        let low: u64 = if msb == 0 { shifted } else { (shifted >> msb) + if shifted & ((1u64 << msb) - 1) != 0 { 1 } else { 0 } };
        let top: u64 = if msb == 0 { 0 } else { rng.u64() << (64 - msb as u32) };
        for d in [-2i64, -1, 0, 1, 2] {
            let lowd = low.wrapping_add(d as u64);
            let biased = if msb == 0 { lowd } else { (lowd & (u64::MAX >> msb)) | top };
            out.push(biased.wrapping_sub(1u64 << 63) as i64);
        }
    }
    out
}

fn check_shard_of(o: &mut Outcome, n: u16, msb: u8, token: i64) {
    let s = sharder(n, msb);
    // A `Token` can never carry i64::MIN (the constructor normalises it to i64::MAX, as
    // ScyllaDB does); the model is evaluated on the value the token actually carries.
    let tok = Token::new(token);
    let got = fw::catch(|| s.shard_of(tok));
    let want = model::shard_of(tok.value(), n, msb);
    let key = fw::hash64(format!("so:{n}:{msb}:{token}").as_bytes());
    o.case(key, n > 1);
    match got {
        Ok(g) if g == want && g < n as u32 => {}
        Ok(g) => o.violation(
            format!("shard_of:mismatch"),
            format!("shard_of(token={token}, n={n}, msb={msb}) = {g}, expected {want}"),
            json!({"kind":"shard_of","n":n,"msb":msb,"token":token,"got":g,"want":want}),
        ),
        Err(p) => o.violation(
            format!("shard_of:panic"),
            format!("shard_of(token={token}, n={n}, msb={msb}) panicked: {p}"),
            json!({"kind":"shard_of","n":n,"msb":msb,"token":token,"panic":p}),
        ),
    }
}

/// One (n, shard, lo, hi) case through the `*_from_range` hook pass-throughs.
fn check_ports(o: &mut Outcome, n: u16, shard: u32, lo: u16, hi: u16, draws: usize) {
    let Ok(range) = ShardAwarePortRange::new(lo..=hi) else {
        o.violation(
            "ports:range-refused",
            format!("ShardAwarePortRange::new({lo}..={hi}) refused a valid range"),
            json!({"kind":"ports","n":n,"shard":shard,"lo":lo,"hi":hi}),
        );
        return;
    };
    let s = sharder(n, 0);
    let want = model::ports_for_shard(n, shard, lo, hi);
    let key = fw::hash64(format!("p:{n}:{shard}:{lo}:{hi}").as_bytes());
    o.case(key, true);
    o.class(if want.is_empty() { "ports:empty-set" } else { "ports:nonempty-set" });
    if (hi - lo) < n - 1 {
        o.class("ports:range-shorter-than-shard-count");
    }
    if hi == 65535 {
        o.class("ports:range-ends-at-65535");
    }
    let replay = json!({"kind":"ports","n":n,"shard":shard,"lo":lo,"hi":hi});

    // iterator: every port of the set exactly once
    let it = fw::catch(|| {
        hooks::iter_source_ports_for_shard_from_range(&s, shard, &range)
            .take(70000)
            .collect::<Vec<u16>>()
    });
    match it {
        Err(p) => o.violation("ports:iter-panic", format!("iterator panicked for n={n} shard={shard} range={lo}..={hi}: {p}"), replay.clone()),
        Ok(got) => {
            let mut sorted = got.clone();
            sorted.sort_unstable();
            if sorted != want {
                let dup = sorted.windows(2).any(|w| w[0] == w[1]);
                o.violation(
                    if dup { "ports:iter-duplicate" } else { "ports:iter-set-mismatch" },
                    format!(
                        "iterator for n={n} shard={shard} range={lo}..={hi} visited {} ports (first {:?}), expected {} (first {:?})",
                        got.len(),
                        &got[..got.len().min(5)],
                        want.len(),
                        &want[..want.len().min(5)]
                    ),
                    replay.clone(),
                );
            }
        }
    }
    // draws
    for _ in 0..draws {
        let d = fw::catch(|| hooks::draw_source_port_for_shard_from_range(&s, shard, &range));
        o.evals(1);
        match d {
            Err(p) => {
                o.violation("ports:draw-panic", format!("draw panicked for n={n} shard={shard} range={lo}..={hi}: {p}"), replay.clone());
                break;
            }
            Ok(None) => {
                if !want.is_empty() {
                    o.violation("ports:draw-none-but-exists", format!("draw returned None for n={n} shard={shard} range={lo}..={hi} although port {} qualifies", want[0]), replay.clone());
                }
                break;
            }
            Ok(Some(p)) => {
                if p < lo || p > hi || (p % n) as u32 != shard {
                    o.violation("ports:draw-wrong-port", format!("draw returned {p} for n={n} shard={shard} range={lo}..={hi}"), replay.clone());
                    break;
                }
                if s.shard_of_source_port(p) != shard {
                    o.violation("ports:shard_of_source_port", format!("shard_of_source_port({p}) != {shard} for n={n}"), replay.clone());
                    break;
                }
            }
        }
    }
}

fn boundary_ranges(n: u16) -> Vec<(u16, u16)> {
    let n32 = n as u32;
    let mut los: Vec<u32> = vec![1024, 1025, 49152, 65535];
    for d in 0..=n32.min(70) {
        los.push(1024 + d);
        los.push(65535u32.saturating_sub(d));
        los.push(65535u32.saturating_sub(n32).saturating_sub(d).max(1024));
    }
    los.sort_unstable();
    los.dedup();
    let mut out = Vec::new();
    for lo in los {
        let mut his: Vec<u32> = vec![lo, 65535, lo + n32 - 1, lo + n32, lo + 2 * n32, lo + n32.saturating_sub(2)];
        for d in 0..=3u32 {
            his.push(lo + d);
        }
        his.retain(|h| *h >= lo && *h <= 65535);
        his.sort_unstable();
        his.dedup();
        for hi in his {
            out.push((lo as u16, hi as u16));
        }
    }
    out
}

fn replay(ctx: &Ctx, path: &str) -> Outcome {
    let mut o = Outcome::new();
    let v: serde_json::Value = serde_json::from_str(&std::fs::read_to_string(path).expect("replay file")).expect("json");
    let r = &v["replay"];
    match r["kind"].as_str() {
        Some("shard_of") => check_shard_of(
            &mut o,
            r["n"].as_u64().unwrap() as u16,
            r["msb"].as_u64().unwrap() as u8,
            r["token"].as_i64().unwrap(),
        ),
        Some("ports") => check_ports(
            &mut o,
            r["n"].as_u64().unwrap() as u16,
            r["shard"].as_u64().unwrap() as u32,
            r["lo"].as_u64().unwrap() as u16,
            r["hi"].as_u64().unwrap() as u16,
            50,
        ),
        Some("public") => check_public(&mut o, r["n"].as_u64().unwrap() as u16, r["shard"].as_u64().unwrap() as u32),
        _ => o.inconclusive("unrecognised replay file"),
    }
    let _ = ctx;
    o
}

/// Public fixed-range API (no hooks): ephemeral range 49152..=65535.
fn check_public(o: &mut Outcome, n: u16, shard: u32) {
    let s = sharder(n, 0);
    let want = model::ports_for_shard(n, shard, 49152, 65535);
    o.case(fw::hash64(format!("pub:{n}:{shard}").as_bytes()), true);
    let replay = json!({"kind":"public","n":n,"shard":shard});
    if want.is_empty() {
        // The documented range holds no port for this shard; the public draw has no way
        // to say so (it panics by contract); only the iterator is checked.
        o.class("public:empty-set");
    } else {
        match fw::catch(|| s.draw_source_port_for_shard(shard)) {
            Ok(p) if (49152..=65535).contains(&p) && (p % n) as u32 == shard => {}
            Ok(p) => o.violation("public:draw-wrong-port", format!("draw_source_port_for_shard({shard}) with n={n} returned {p}"), replay.clone()),
            Err(e) => o.violation("public:draw-panic", format!("draw_source_port_for_shard({shard}) with n={n} panicked: {e}"), replay.clone()),
        }
    }
    match fw::catch(|| s.iter_source_ports_for_shard(shard).take(70000).collect::<Vec<u16>>()) {
        Ok(mut got) => {
            got.sort_unstable();
            if got != want {
                o.violation("public:iter-set-mismatch", format!("iter_source_ports_for_shard({shard}) with n={n}: {} ports, expected {}", got.len(), want.len()), replay);
            }
        }
        Err(e) => o.violation("public:iter-panic", format!("iter_source_ports_for_shard({shard}) with n={n} panicked: {e}"), replay),
    }
}

pub fn run(ctx: &Ctx) -> Outcome {
    if let Some(p) = &ctx.replay {
        return replay(ctx, p);
    }
    let small_max: u16 = if ctx.quick() { 64 } else { 256 };
    let exhaustive_n: u16 = if ctx.miri() { 8 } else { 512 };
    let workers = ctx.workers;
    let mut out = fw::par(ctx, workers, |w, mut rng| {
        let mut o = Outcome::new();
        // (1) shard_of: n exhaustive 1..=512 (+ boundaries) x msb 0..=63 x token pool
        let mut ns: Vec<u16> = (1..=exhaustive_n).collect();
        for k in 1..16u32 {
            let p = 1u32 << k;
            for c in [p - 1, p, p + 1] {
                if c >= 1 && c <= 65535 {
                    ns.push(c as u16);
                }
            }
        }
        ns.push(65535);
        ns.sort_unstable();
        ns.dedup();
        let tokens = token_pool(&mut rng);
        for (i, n) in ns.iter().enumerate() {
            if i % workers != w {
                continue;
            }
            for msb in 0..=63u8 {
                for t in &tokens {
                    check_shard_of(&mut o, *n, msb, *t);
                }
                // both sides of the shard boundaries (all of them for small shard counts)
                if *n > 1 {
                    for t in shard_boundary_tokens(*n, msb, &mut rng, if msb % 8 == 0 { 24 } else { 4 }) {
                        check_shard_of(&mut o, *n, msb, t);
                    }
                    o.class("shard_of:shard-boundary-tokens");
                }
            }
        }
        o.class("shard_of:grid");
        // random large n
        let extra = ctx.vol(20_000, 3_000_000) / workers as u64;
        for i in 0..extra {
            let n = rng.range(1, 65535) as u16;
            let msb = rng.below(64) as u8;
            let t = rng.i64_boundary();
            check_shard_of(&mut o, n, msb, t);
            if i % 8 == 0 && n > 1 {
                for t in shard_boundary_tokens(n, msb, &mut rng, 2) {
                    check_shard_of(&mut o, n, msb, t);
                }
            }
        }
        o.class("shard_of:random");

        // (2) ports: exhaustive boundary family for n <= small_max, all shards
        for n in 1..=small_max {
            if (n as usize) % workers != w {
                continue;
            }
            for (lo, hi) in boundary_ranges(n) {
                for shard in 0..n as u32 {
                    check_ports(&mut o, n, shard, lo, hi, 2);
                }
            }
        }
        // random (n, range, shard)
        let extra = ctx.vol(6_000, 1_500_000) / workers as u64;
        for _ in 0..extra {
            let n = if rng.chance(1, 4) { rng.range(1, 65535) as u16 } else { rng.range(1, 300) as u16 };
            let lo = rng.range(1024, 65535) as u16;
            let hi = match rng.below(4) {
                0 => 65535,
                1 => (lo as u32 + rng.below(n as u64 + 2) as u32).min(65535) as u16,
                _ => rng.range(lo as i64, 65535) as u16,
            };
            let shard = rng.below(n as u64) as u32;
            check_ports(&mut o, n, shard, lo, hi, 3);
        }
        // (3) public fixed-range API
        for n in (1..=exhaustive_n.min(300)).chain([1023, 1024, 16383, 16384, 16385, 32768, 65535]) {
            if (n as usize) % workers != w {
                continue;
            }
            let shards: Vec<u32> = if n <= 64 { (0..n as u32).collect() } else { vec![0, 1, n as u32 / 2, n as u32 - 1, rng.below(n as u64) as u32] };
            for s in shards {
                check_public(&mut o, n, s);
            }
        }
        if w == 0 {
            o.sample(json!({"shard_of":{"token": i64::MIN, "n": 7, "msb": 12, "oracle": model::shard_of(i64::MIN, 7, 12)}}));
            o.sample(json!({"ports":{"n": 5, "shard": 3, "lo": 65531, "hi": 65535, "oracle_set": model::ports_for_shard(5, 3, 65531, 65535)}}));
            o.sample(json!({"ports":{"n": 300, "shard": 299, "lo": 1024, "hi": 1100, "oracle_set": model::ports_for_shard(300, 299, 1024, 1100)}}));
        }
        o
    });
    for c in ["shard_of:shard-boundary-tokens", "ports:empty-set", "ports:nonempty-set", "ports:range-shorter-than-shard-count", "ports:range-ends-at-65535", "shard_of:grid"] {
        out.require_class(c);
    }
    out.exhaustive = Some(false);
    out.note("exhaustive_part", json!(format!("shard_of: n in 1..={exhaustive_n} x msb 0..=63 x 25 tokens; ports: all shards x boundary range family for n in 1..={small_max}")));
    out
}
