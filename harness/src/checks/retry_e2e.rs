//! End-to-end halves of C06 (retries) and C13 (speculative execution): a real
//! Session against three mock nodes that answer each ATTEMPT of a logical
//! request according to a script; the nodes' frame log is the observation.

use super::e2e::*;
use crate::fw::{self, Ctx, Outcome, Rng};
use crate::mock::log::Ev;
use crate::mock::*;
use crate::wire::prim::Value;
use crate::wire::request::{BatchStatement, Request};
use crate::wire::response::*;
use scylla::client::execution_profile::ExecutionProfile;
use scylla::client::session::Session;
use scylla::policies::retry::{DefaultRetryPolicy, DowngradingConsistencyRetryPolicy, FallthroughRetryPolicy, RequestInfo, RetryDecision, RetryPolicy, RetrySession};
use scylla::policies::speculative_execution::SimpleSpeculativeExecutionPolicy;
use scylla::statement::Consistency;
use serde_json::json;
use std::collections::HashMap;
use std::sync::{Arc, Mutex};
use std::time::Duration;

const OPQ: &str = "INSERT INTO ks.t (id, v) VALUES (";

/// What a node does with the k-th frame (attempt) of a logical request.
#[derive(Clone, Debug, PartialEq)]
pub enum Att {
    /// answer success at once (a row carrying (op, attempt))
    Ok,
    /// answer success after a delay
    OkAfter(u64),
    /// hold the answer until the client call has returned
    Withhold,
    Err(&'static str),
    /// close the connection without answering
    Close,
    /// EXECUTE only: the node says it does not know the statement (the driver re-prepares and repeats once,
    /// transparently; that repeat is the next frame of the script)
    Unprepared,
}

/// error classes of the property statement
pub const SAFE: [&str; 3] = ["unavailable", "bootstrapping", "read_timeout"];
pub const UNSAFE: [&str; 5] = ["overloaded", "server_error", "truncate", "write_timeout", "close"];
pub const OTHER: [&str; 2] = ["invalid", "read_failure"];

fn err_body(kind: &str, cl: u16) -> ErrorBody {
    match kind {
        "unavailable" => ErrorBody { code: errcode::UNAVAILABLE, message: "u".into(), extra: ErrorExtra::Unavailable { cl, required: 2, alive: 1 } },
        "bootstrapping" => ErrorBody::simple(errcode::IS_BOOTSTRAPPING, "b"),
        "read_timeout" => ErrorBody { code: errcode::READ_TIMEOUT, message: "r".into(), extra: ErrorExtra::ReadTimeout { cl, received: 2, blockfor: 2, data_present: 0 } },
        "overloaded" => ErrorBody::simple(errcode::OVERLOADED, "o"),
        "server_error" => ErrorBody::simple(errcode::SERVER_ERROR, "s"),
        "truncate" => ErrorBody::simple(errcode::TRUNCATE_ERROR, "t"),
        "write_timeout" => ErrorBody { code: errcode::WRITE_TIMEOUT, message: "w".into(), extra: ErrorExtra::WriteTimeout { cl, received: 1, blockfor: 2, write_type: "SIMPLE".into() } },
        "read_failure" => ErrorBody { code: errcode::READ_FAILURE, message: "rf".into(), extra: ErrorExtra::ReadFailure { cl, received: 1, blockfor: 2, numfailures: 1, data_present: 0 } },
        _ => ErrorBody::simple(errcode::INVALID, "i"),
    }
}

fn att_cols() -> Vec<ColSpec> {
    vec![ColSpec::new("ks", "t", "op", ColType::BigInt), ColSpec::new("ks", "t", "attempt", ColType::Int), ColSpec::new("ks", "t", "node", ColType::Int)]
}

#[derive(Debug, Clone)]
pub struct Frame {
    pub node: usize,
    pub conn: u64,
    pub shard: Option<u16>,
    pub consistency: u16,
    pub recv_seq: u64,
    /// seq at which the node handed its answer to the socket (None: never answered / closed)
    pub answered_seq: Option<u64>,
    pub attempt: usize,
    pub outcome: Att,
}

pub struct Scripted {
    /// op -> number of leading pages answered at once (see `Op::lead`)
    pub lead: Mutex<HashMap<u64, usize>>,
    pub scripts: Mutex<HashMap<u64, Vec<Att>>>,
    pub frames: Arc<Mutex<HashMap<u64, Vec<Frame>>>>,
    pub withheld: Mutex<HashMap<u64, Vec<(Rq, usize)>>>,
    pub log: Mutex<Option<Arc<crate::mock::log::EventLog>>>,
}

impl Scripted {
    pub fn new() -> Arc<Self> {
        Arc::new(Self { lead: Mutex::new(HashMap::new()), scripts: Mutex::new(HashMap::new()), frames: Arc::new(Mutex::new(HashMap::new())), withheld: Mutex::new(HashMap::new()), log: Mutex::new(None) })
    }
    fn op_of(rq: &Rq) -> Option<u64> {
        let from_text = |q: &str| q.strip_prefix(OPQ).and_then(|s| s.split(',').next()).and_then(|s| s.trim().parse::<u64>().ok());
        let from_vals = |v: &Vec<Value>| match v.first()? {
            Value::Bytes(b) if b.len() == 8 => Some(u64::from_be_bytes(b.as_slice().try_into().unwrap())),
            _ => None,
        };
        match &*rq.request {
            Request::Query { query, .. } => from_text(query),
            Request::Execute { params, .. } => params.values.as_ref().and_then(from_vals),
            Request::Batch { statements, .. } => statements.iter().find_map(|s| match s {
                BatchStatement::Query { query, .. } => from_text(query),
                BatchStatement::Prepared { values, .. } => from_vals(values),
            }),
            _ => None,
        }
    }
    fn success(op: u64, attempt: usize, node: usize) -> Response {
        Response::Result(ResultBody::Rows {
            metadata: ResultMetadata { columns: att_cols(), paging_state: None, no_metadata: false, global_spec: true, new_metadata_id: None },
            rows: vec![vec![Some((op as i64).to_be_bytes().to_vec()), Some((attempt as i32).to_be_bytes().to_vec()), Some((node as i32).to_be_bytes().to_vec())]],
        })
    }
    fn mark_answered(&self, op: u64, attempt: usize) {
        let seq = self.log.lock().unwrap().as_ref().map(|l| l.counter()).unwrap_or(0);
        if let Some(f) = self.frames.lock().unwrap().get_mut(&op).and_then(|v| v.get_mut(attempt)) {
            f.answered_seq = Some(seq);
        }
    }
    /// releases answers withheld for `op` (called after the client call returned)
    pub fn release(&self, op: u64) {
        let w = self.withheld.lock().unwrap().remove(&op).unwrap_or_default();
        for (rq, attempt) in w {
            self.mark_answered(op, attempt);
            rq.reply(&Self::success(op, attempt, rq.node.idx));
        }
    }
}

impl Handler for Scripted {
    fn statement(&self, _node: &MockNode, query: &str) -> Option<StatementDef> {
        if query.starts_with(OPQ) {
            let mut d = StatementDef::new(query, &fw::hash_str(query).to_be_bytes());
            d.bind = vec![ColSpec::new("ks", "t", "id", ColType::BigInt)];
            d.pk_indexes = vec![0];
            d.result = att_cols();
            Some(d)
        } else {
            None
        }
    }
    fn on_request(&self, rq: Rq) {
        let Some(op) = Self::op_of(&rq) else {
            rq.void();
            return;
        };
        let consistency = match &*rq.request {
            Request::Query { params, .. } | Request::Execute { params, .. } => params.consistency,
            Request::Batch { consistency, .. } => *consistency,
            _ => 0,
        };
        // leading pages of a paged request: served at once, not part of the judged attempts
        let lead = self.lead.lock().unwrap().get(&op).copied().unwrap_or(0);
        if lead > 0 {
            let ps = match &*rq.request {
                Request::Query { params, .. } | Request::Execute { params, .. } => params.paging_state.clone(),
                _ => None,
            };
            let page = match &ps {
                None => 0,
                Some(b) => std::str::from_utf8(b).ok().and_then(|t| t.strip_prefix("lead-")).and_then(|t| t.parse::<usize>().ok()).unwrap_or(usize::MAX),
            };
            if page < lead {
                rq.reply(&Response::Result(ResultBody::Rows {
                    metadata: ResultMetadata { columns: att_cols(), paging_state: Some(format!("lead-{}", page + 1).into_bytes()), no_metadata: false, global_spec: true, new_metadata_id: None },
                    rows: vec![vec![Some((op as i64).to_be_bytes().to_vec()), Some((-1i32 - page as i32).to_be_bytes().to_vec()), Some((rq.node.idx as i32).to_be_bytes().to_vec())]],
                }));
                return;
            }
        }
        let (attempt, outcome) = {
            let mut fr = self.frames.lock().unwrap();
            let v = fr.entry(op).or_default();
            let attempt = v.len();
            let outcome = self.scripts.lock().unwrap().get(&op).and_then(|s| s.get(attempt).cloned()).unwrap_or(Att::Ok);
            v.push(Frame { node: rq.node.idx, conn: rq.conn.id, shard: rq.conn.shard, consistency, recv_seq: rq.seq, answered_seq: None, attempt, outcome: outcome.clone() });
            (attempt, outcome)
        };
        match outcome {
            Att::Ok => {
                self.mark_answered(op, attempt);
                rq.reply(&Self::success(op, attempt, rq.node.idx));
            }
            Att::OkAfter(ms) => {
                let node = rq.node.idx;
                let log = self.log.lock().unwrap().clone();
                let frames = self.frames.clone();
                tokio::spawn(async move {
                    tokio::time::sleep(Duration::from_millis(ms)).await;
                    let seq = log.as_ref().map(|l| l.counter()).unwrap_or(0);
                    if let Some(f) = frames.lock().unwrap().get_mut(&op).and_then(|v| v.get_mut(attempt)) {
                        f.answered_seq = Some(seq);
                    }
                    rq.reply(&Scripted::success(op, attempt, node));
                });
            }
            Att::Withhold => {
                self.withheld.lock().unwrap().entry(op).or_default().push((rq, attempt));
            }
            Att::Err(kind) => {
                self.mark_answered(op, attempt);
                rq.error(err_body(kind, consistency));
            }
            Att::Close => {
                rq.conn.close(CloseHow::Rst);
            }
            Att::Unprepared => {
                self.mark_answered(op, attempt);
                match &*rq.request {
                    Request::Execute { id, .. } => rq.error(ErrorBody::unprepared(id)),
                    _ => rq.error(err_body("overloaded", consistency)),
                }
            }
        }
    }
}

// ---------------------------------------------------------------------------
// Recording retry policy (decisions attributed to the logical request through a task-local)
// ---------------------------------------------------------------------------

tokio::task_local! {
    static CUR_OP: u64;
}

#[derive(Debug, Clone)]
pub struct Decision {
    pub error: String,
    pub idempotent: bool,
    pub consistency: Consistency,
    pub decision: RetryDecision,
}

#[derive(Debug)]
struct RecPolicy {
    inner: Arc<dyn RetryPolicy>,
    rec: Arc<Mutex<HashMap<u64, Vec<Decision>>>>,
    /// set when the policy object belongs to one statement (statement-level policy); otherwise the
    /// logical request is found through the task-local of the calling task (profile-level policy)
    op: Option<u64>,
}
struct RecSession {
    inner: Box<dyn RetrySession>,
    rec: Arc<Mutex<HashMap<u64, Vec<Decision>>>>,
    op: Option<u64>,
}
impl RetryPolicy for RecPolicy {
    fn new_session(&self) -> Box<dyn RetrySession> {
        Box::new(RecSession { inner: self.inner.new_session(), rec: self.rec.clone(), op: self.op.or_else(|| CUR_OP.try_with(|o| *o).ok()) })
    }
}
impl RetrySession for RecSession {
    fn decide_should_retry(&mut self, info: RequestInfo) -> RetryDecision {
        let (e, i, c) = (format!("{}", info.error), info.is_idempotent, info.consistency);
        let d = self.inner.decide_should_retry(info);
        if let Some(op) = self.op.or_else(|| CUR_OP.try_with(|o| *o).ok()) {
            self.rec.lock().unwrap().entry(op).or_default().push(Decision { error: e, idempotent: i, consistency: c, decision: d.clone() });
        }
        d
    }
    fn reset(&mut self) {
        self.inner.reset()
    }
}

/// every node has at least one established connection that is not the (REGISTERed) control connection
fn pools_ready(c: &MockCluster, n: usize) -> bool {
    (0..n).all(|i| c.established(i).iter().any(|x| !x.registered.load(std::sync::atomic::Ordering::SeqCst)))
}

fn three_nodes() -> ClusterSpec {
    ClusterSpec {
        nodes: vec![NodeSpec::simple("dc1", "r1", vec![-3000]), NodeSpec::simple("dc1", "r2", vec![0]), NodeSpec::simple("dc1", "r3", vec![3000])],
        keyspaces: vec![KeyspaceDef::simple("ks", 3).with_table(TableDef::new("t", &[("id", "bigint")], &[("v", "int")]))],
        cluster_name: "retry".into(),
    }
}

#[derive(Clone, Copy, Debug, PartialEq, Eq)]
enum Api {
    QueryUnpaged,
    ExecuteUnpaged,
    Batch,
    QuerySinglePage,
    /// the paging API (row stream): its first page goes through a different execution path
    QueryIter,
    ExecuteIter,
}

#[derive(Clone, Debug)]
struct Op {
    op: u64,
    script: Vec<Att>,
    idempotent: bool,
    api: Api,
    cl: Consistency,
    /// paging-iterator APIs only: this many pages are served at once (each with a paging state) before
    /// the page the script applies to; frames and decisions are those of that LAST page
    lead: usize,
}

async fn issue(session: &Session, prepared: &scylla::statement::prepared::PreparedStatement, o: &Op, own_policy: Option<Arc<dyn RetryPolicy>>) -> Result<Option<(i64, i32, i32)>, String> {
    let text = format!("{OPQ}{}, 0)", o.op);
    if matches!(o.api, Api::QueryIter | Api::ExecuteIter) {
        use futures::StreamExt;
        let pager = if o.api == Api::QueryIter {
            let mut st = scylla::statement::Statement::new(text);
            st.set_is_idempotent(o.idempotent);
            st.set_consistency(o.cl);
            st.set_retry_policy(own_policy.clone());
            session.query_iter(st, ()).await
        } else {
            let mut p = prepared.clone();
            p.set_is_idempotent(o.idempotent);
            p.set_consistency(o.cl);
            p.set_retry_policy(own_policy.clone());
            session.execute_iter(p, (o.op as i64,)).await
        };
        let pager = pager.map_err(|e| format!("{e}"))?;
        let mut stream = pager.rows_stream::<(i64, i32, i32)>().map_err(|e| format!("undecodable answer: {e}"))?;
        // the row of the LAST page is the answer (leading pages carry negative attempt numbers)
        let mut last = None;
        loop {
            match stream.next().await {
                None => return Ok(last),
                Some(Ok(row)) => last = Some(row),
                Some(Err(e)) => return Err(format!("{e}")),
            }
        }
    }
    let res = match o.api {
        Api::QueryIter | Api::ExecuteIter => unreachable!(),
        Api::QueryUnpaged => {
            let mut st = scylla::statement::Statement::new(text);
            st.set_is_idempotent(o.idempotent);
            st.set_consistency(o.cl);
            session.query_unpaged(st, ()).await.map_err(|e| format!("{e}"))
        }
        Api::QuerySinglePage => {
            let mut st = scylla::statement::Statement::new(text);
            st.set_is_idempotent(o.idempotent);
            st.set_consistency(o.cl);
            session.query_single_page(st, (), scylla::response::PagingState::start()).await.map(|(r, _)| r).map_err(|e| format!("{e}"))
        }
        Api::ExecuteUnpaged => {
            let mut p = prepared.clone();
            p.set_is_idempotent(o.idempotent);
            p.set_consistency(o.cl);
            session.execute_unpaged(&p, (o.op as i64,)).await.map_err(|e| format!("{e}"))
        }
        Api::Batch => {
            let mut b = scylla::statement::batch::Batch::default();
            b.append_statement(prepared.clone());
            b.append_statement(scylla::statement::Statement::new("INSERT INTO ks.t (id, v) VALUES (?, 1)"));
            b.set_is_idempotent(o.idempotent);
            b.set_consistency(o.cl);
            session.batch(&b, ((o.op as i64,), (o.op as i64,))).await.map_err(|e| format!("{e}"))
        }
    };
    let r = res?;
    match r.into_rows_result() {
        Err(_) => Ok(None),
        Ok(rows) => match rows.maybe_first_row::<(i64, i32, i32)>() {
            Ok(x) => Ok(x),
            Err(e) => Err(format!("undecodable answer: {e}")),
        },
    }
}

struct CaseOut {
    results: HashMap<u64, Result<Option<(i64, i32, i32)>, String>>,
    frames: HashMap<u64, Vec<Frame>>,
    decisions: HashMap<u64, Vec<Decision>>,
    ret_seq: HashMap<u64, u64>,
    violations: Vec<String>,
    build_error: Option<String>,
    hung: Vec<u64>,
}

async fn run_ops(ops: Vec<Op>, policy: u8, spec_exec: Option<(usize, u64)>, sequential: bool) -> CaseOut {
    let handler = Scripted::new();
    let cluster = MockCluster::start(three_nodes(), handler.clone()).await;
    *handler.log.lock().unwrap() = Some(cluster.log().clone());
    let rec = Arc::new(Mutex::new(HashMap::new()));
    let inner: Arc<dyn RetryPolicy> = match policy {
        0 => Arc::new(DefaultRetryPolicy::new()),
        1 => Arc::new(DowngradingConsistencyRetryPolicy::new()),
        _ => Arc::new(FallthroughRetryPolicy::new()),
    };
    let mut pb = ExecutionProfile::builder().retry_policy(Arc::new(RecPolicy { inner: inner.clone(), rec: rec.clone(), op: None })).request_timeout(None);
    if let Some((max, interval)) = spec_exec {
        pb = pb.speculative_execution_policy(Some(Arc::new(SimpleSpeculativeExecutionPolicy { max_retry_count: max, retry_interval: Duration::from_millis(interval) })));
    }
    let mut out = CaseOut { results: HashMap::new(), frames: HashMap::new(), decisions: HashMap::new(), ret_seq: HashMap::new(), violations: vec![], build_error: None, hung: vec![] };
    // the profile in effect is, in two cases of three, one DERIVED from the configured one (to_builder on the
    // profile / pointee_to_builder on the handle): a derived profile keeps every setting it does not override
    let handle = match ops.first().map(|o| o.op).unwrap_or(0) % 3 {
        0 => pb.build().into_handle(),
        1 => pb.build().to_builder().request_timeout(None).build().into_handle(),
        _ => pb.build().into_handle().pointee_to_builder().request_timeout(None).build().into_handle(),
    };
    let session = match connect(&cluster, |b| b.default_execution_profile_handle(handle)).await {
        Ok(s) => Arc::new(s),
        Err(e) => {
            out.build_error = Some(e);
            cluster.shutdown();
            return out;
        }
    };
    {
        let c = cluster.clone();
        cluster.wait_until(Duration::from_secs(10), move || pools_ready(&c, 3)).await;
    }
    let prepared = match session.prepare(format!("{OPQ}?, 0)")).await {
        Ok(p) => p,
        Err(e) => {
            out.build_error = Some(format!("prepare: {e}"));
            cluster.shutdown();
            return out;
        }
    };
    for o in &ops {
        handler.scripts.lock().unwrap().insert(o.op, o.script.clone());
        if o.lead > 0 {
            handler.lead.lock().unwrap().insert(o.op, o.lead);
        }
    }
    let log = cluster.log().clone();
    let mut handles = Vec::new();
    for o in ops.iter().cloned() {
        let (s, p, l, h) = (session.clone(), prepared.clone(), log.clone(), handler.clone());
        // the decisions of a paged request's later pages are taken in the pager's own task: such a request carries
        // its own (statement-level) recording policy; every other request uses the profile's
        let own: Option<Arc<dyn RetryPolicy>> = if o.lead > 0 { Some(Arc::new(RecPolicy { inner: inner.clone(), rec: rec.clone(), op: Some(o.op) })) } else { None };
        let fut = async move {
            call(&l, o.op, "op", format!("{:?}", o.api));
            let r = tokio::time::timeout(Duration::from_secs(25), CUR_OP.scope(o.op, issue(&s, &p, &o, own))).await;
            ret(&l, o.op, matches!(r, Ok(Ok(_))), "");
            h.release(o.op);
            (o.op, r)
        };
        if sequential {
            let (op, r) = fut.await;
            match r {
                Ok(x) => {
                    out.results.insert(op, x);
                }
                Err(_) => out.hung.push(op),
            }
            // connections closed by the script come back before the next op
            let c = cluster.clone();
            cluster.wait_until(Duration::from_secs(5), move || pools_ready(&c, 3)).await;
        } else {
            handles.push(tokio::spawn(fut));
        }
    }
    for h in handles {
        if let Ok((op, r)) = h.await {
            match r {
                Ok(x) => {
                    out.results.insert(op, x);
                }
                Err(_) => out.hung.push(op),
            }
        }
    }
    tokio::time::sleep(Duration::from_millis(20)).await;
    out.frames = handler.frames.lock().unwrap().clone();
    out.decisions = rec.lock().unwrap().clone();
    for l in log.snapshot() {
        if let Ev::ClientReturn { op, .. } = l.ev {
            out.ret_seq.insert(op, l.seq);
        }
    }
    out.violations = log.violations();
    drop(session);
    cluster.shutdown();
    out
}

// ---------------------------------------------------------------------------
// C06 part b
// ---------------------------------------------------------------------------

fn gen_c06_ops(rng: &mut Rng, n: usize) -> Vec<Op> {
    let mut v = Vec::new();
    for _ in 0..n {
        let len = rng.usize(1, 5);
        let mut script = Vec::new();
        if rng.chance(1, 5) {
            // the same failure again and again: exercises the policies' "already retried once" memory
            let k = *rng.pick(&["read_timeout", "write_timeout", "unavailable", "bootstrapping", "overloaded"]);
            for _ in 0..rng.usize(3, 9) {
                script.push(Att::Err(k));
            }
        } else {
            for _ in 0..len {
                let k = match rng.below(10) {
                    0..=3 => *rng.pick(&SAFE),
                    4..=7 => *rng.pick(&UNSAFE),
                    _ => *rng.pick(&OTHER),
                };
                script.push(if k == "close" { Att::Close } else { Att::Err(k) });
            }
        }
        if rng.chance(2, 3) {
            script.push(Att::Ok);
        }
        let api = *rng.pick(&[Api::QueryUnpaged, Api::ExecuteUnpaged, Api::Batch, Api::QuerySinglePage, Api::QueryIter, Api::ExecuteIter]);
        if matches!(api, Api::ExecuteUnpaged | Api::ExecuteIter) && rng.chance(1, 3) {
            // a thrashing statement cache: UNPREPARED several times in a row, each PREPARE in between succeeding
            let n = rng.usize(1, 6);
            let mut s2: Vec<Att> = (0..n).map(|_| Att::Unprepared).collect();
            s2.extend(script.into_iter());
            script = s2;
        }
        v.push(Op {
            op: next_op(),
            script,
            idempotent: rng.chance(1, 3),
            api,
            cl: *rng.pick(&[Consistency::One, Consistency::Quorum, Consistency::LocalQuorum, Consistency::All, Consistency::Two]),
            lead: 0,
        });
    }
    v
}

fn cl_code(c: Consistency) -> u16 {
    c as u16
}

fn judge_c06(o: &mut Outcome, ops: &[Op], policy: u8, r: &CaseOut) {
    let pname = ["default", "downgrading", "fallthrough"][policy as usize];
    if let Some(e) = &r.build_error {
        o.inconclusive(format!("case could not start: {e}"));
        return;
    }
    for v in &r.violations {
        o.node_violation("c06b", &v, json!({}));
    }
    for op in ops {
        let frames = r.frames.get(&op.op).cloned().unwrap_or_default();
        let decisions = r.decisions.get(&op.op).cloned().unwrap_or_default();
        let replay = json!({"part": "b", "policy": pname, "op": format!("{op:?}"),
            "frames": frames.iter().map(|f| format!("attempt {} node {} cl {} -> {:?}", f.attempt, f.node, f.consistency, f.outcome)).collect::<Vec<_>>(),
            "decisions": decisions.iter().map(|d| format!("{} -> {:?}", d.error.chars().take(60).collect::<String>(), d.decision)).collect::<Vec<_>>()});
        let key = fw::hash64(format!("{pname}:{:?}:{}:{:?}:{:?}", op.script, op.idempotent, op.api, op.cl).as_bytes());
        o.case(key, frames.len() > 1 || op.script.len() > 1);
        o.class(&format!("api:{:?}", op.api));
        if op.lead > 0 {
            o.class("paged:script-applies-to-a-later-page");
        }
        o.class(&format!("policy:{pname}"));
        if r.hung.contains(&op.op) {
            o.violation("c06b:request-never-returned", format!("request {} did not return within 25 s although every attempt had been answered", op.op), replay.clone());
            continue;
        }
        if frames.is_empty() {
            o.inconclusive("a request produced no frame at any node");
            continue;
        }
        // UNPREPARED answers: the driver repeats the frame ONCE after re-preparing, without asking the policy; an
        // attempt is therefore one frame, or two when the first was answered UNPREPARED. The number of ATTEMPTS is
        // what the policy's decisions bound - UNPREPARED again and again must not multiply frames.
        if frames.iter().any(|f| f.outcome == Att::Unprepared) {
            o.class("unprepared:answered-UNPREPARED-by-the-coordinator");
            let retries = decisions.iter().filter(|d| matches!(d.decision, RetryDecision::RetrySameTarget(_) | RetryDecision::RetryNextTarget(_))).count();
            let (mut i, mut attempts) = (0usize, 0usize);
            while i < frames.len() {
                i += if frames[i].outcome == Att::Unprepared && i + 1 < frames.len() && frames[i + 1].node == frames[i].node { 2 } else { 1 };
                attempts += 1;
            }
            if attempts > 1 + retries {
                o.violation("c06b:more-frames-than-decisions", format!("request {} reached the nodes {} times = {attempts} attempts (an attempt answered UNPREPARED may be repeated once), but the policy decided only {retries} retries", op.op, frames.len()), replay.clone());
            }
            if !op.idempotent {
                for k in 1..frames.len() {
                    let prev = &frames[k - 1].outcome;
                    let safe = matches!(prev, Att::Err(e) if SAFE.contains(e)) || *prev == Att::Unprepared;
                    if !safe {
                        o.violation(format!("c06b:{pname}:non-idempotent-resent-after:{}", match prev { Att::Err(e) => e, Att::Close => "broken-connection", _ => "success" }), format!("non-idempotent request {} was sent again (frame {k}) after an attempt that ended with {:?}", op.op, prev), replay.clone());
                    }
                }
            }
            o.note_add("frames_seen", frames.len() as u64);
            continue;
        }
        // (1) the statement's safety table, from the script alone
        if !op.idempotent {
            for k in 1..frames.len() {
                let prev = &frames[k - 1].outcome;
                let safe = matches!(prev, Att::Err(e) if SAFE.contains(e));
                if !safe {
                    o.violation(
                        format!("c06b:{pname}:non-idempotent-resent-after:{}", match prev { Att::Err(e) => e, Att::Close => "broken-connection", _ => "success" }),
                        format!("non-idempotent request {} was sent again (attempt {k} to node {}) after an attempt that ended with {:?}", op.op, frames[k].node, prev),
                        replay.clone(),
                    );
                }
            }
            if frames.len() > 1 {
                o.class("non-idempotent:resent-after-proof-of-non-application");
            } else if op.script.len() > 1 || !matches!(op.script[0], Att::Ok) {
                o.class("non-idempotent:stopped");
            }
        }
        if policy == 2 && frames.len() > 1 {
            o.violation("c06b:fallthrough-resent", format!("Fallthrough policy: request {} reached the nodes {} times", op.op, frames.len()), replay.clone());
        }
        // (2) bounded: plan length (3 nodes) + fixed same-node retries
        let bound = 3 + [2usize, 3, 0][policy as usize];
        if frames.len() > bound {
            o.violation(format!("c06b:{pname}:too-many-attempts"), format!("request {} reached the nodes {} times; plan length 3 + same-node retries allows {bound}", op.op, frames.len()), replay.clone());
        }
        // (2b) the policy's fixed number of same-node retries: consecutive frames at the same node
        // (documented: Default at most 2 - one after a read timeout, one after a batch-log write
        // timeout; Downgrading: a small constant; Fallthrough: none)
        let same_node_retries = (1..frames.len()).filter(|k| frames[*k].node == frames[*k - 1].node).count();
        let max_same = [2usize, 3, 0][policy as usize];
        if same_node_retries > max_same {
            o.violation(format!("c06b:{pname}:same-node-retries-unbounded"), format!("request {} was sent {same_node_retries} times again to the node it had just failed on; the policy's fixed number of same-node retries is at most {max_same}", op.op), replay.clone());
        }
        if same_node_retries > 0 {
            o.class("same-node-retry-observed");
        }
        // (3) the driver sends exactly the attempts the policy decided: frames == 1 + retry decisions,
        // on the target and at the consistency the decision named
        let retries: Vec<&Decision> = decisions.iter().filter(|d| matches!(d.decision, RetryDecision::RetrySameTarget(_) | RetryDecision::RetryNextTarget(_))).collect();
        // a retry decided when the plan is exhausted cannot produce a frame: frames <= 1 + retries, and
        // frames == 1 + retries whenever fewer than 3 distinct nodes were used up
        if frames.len() > 1 + retries.len() {
            o.violation("c06b:more-frames-than-decisions", format!("request {} reached the nodes {} times but the policy decided only {} retries", op.op, frames.len(), retries.len()), replay.clone());
        }
        if frames.len() < 1 + retries.len() {
            // A decided retry that produced no frame (plan exhausted, or the next target had no usable
            // connection at that instant) is not what the property forbids ("no more" attempts than decided):
            // counted, not judged.
            o.note_add("retry_decisions_without_a_frame", (1 + retries.len() - frames.len()) as u64);
        }
        let mut cur_cl = cl_code(op.cl);
        for (k, d) in retries.iter().enumerate() {
            let Some(f) = frames.get(k + 1) else { break };
            let (same, newcl) = match &d.decision {
                RetryDecision::RetrySameTarget(c) => (true, c),
                RetryDecision::RetryNextTarget(c) => (false, c),
                _ => unreachable!(),
            };
            if let Some(c) = newcl {
                cur_cl = cl_code(*c);
                o.class("decision:changed-consistency");
            }
            if f.consistency != cur_cl {
                o.violation("c06b:retry-at-wrong-consistency", format!("request {} attempt {} arrived at consistency {} but the decisions so far name {}", op.op, k + 1, f.consistency, cur_cl), replay.clone());
            }
            if same {
                o.class("decision:retry-same-target");
                if f.node != frames[k].node {
                    o.violation("c06b:same-target-retry-went-elsewhere", format!("request {}: RetrySameTarget was decided but attempt {} went to node {} instead of {}", op.op, k + 1, f.node, frames[k].node), replay.clone());
                }
            } else {
                o.class("decision:retry-next-target");
                if f.node == frames[k].node {
                    o.violation("c06b:next-target-retry-stayed", format!("request {}: RetryNextTarget was decided but attempt {} went to the same node {}", op.op, k + 1, f.node), replay.clone());
                }
            }
        }
        if frames[0].consistency != cl_code(op.cl) {
            o.violation("c06b:first-attempt-wrong-consistency", format!("request {} first arrived at consistency {} instead of {}", op.op, frames[0].consistency, cl_code(op.cl)), replay.clone());
        }
        if o.want_sample() && frames.len() > 1 {
            o.sample(replay.clone());
        }
        o.note_add("frames_seen", frames.len() as u64);
        o.note_add("decisions_recorded", decisions.len() as u64);
    }
}

pub fn run_c06_b(ctx: &Ctx) -> Outcome {
    let mut out = Outcome::new();
    let rt = runtime(ctx.workers.min(8));
    let mut rng = ctx.rng(606);
    let n_cases = ctx.vol(150, 3000);
    let mut cases = Vec::new();
    for i in 0..n_cases {
        let mut ops = gen_c06_ops(&mut rng, 12);
        // every fourth case: a speculative execution policy is configured as well and the (then all
        // non-idempotent) requests are answered slower than its interval - it must stay out of the way
        let spec = if i % 4 == 3 { Some((2usize, 15u64)) } else { None };
        if spec.is_some() {
            for o in ops.iter_mut() {
                o.idempotent = false;
                if let Some(last) = o.script.last_mut() {
                    if *last == Att::Ok && rng.chance(2, 3) {
                        *last = Att::OkAfter(50);
                    }
                }
            }
        }
        for o in ops.iter_mut() {
            if matches!(o.api, Api::QueryIter | Api::ExecuteIter) && rng.chance(1, 2) {
                o.lead = rng.usize(1, 2);
            }
        }
        cases.push((ops, (i % 3) as u8, spec));
    }
    for chunk in cases.chunks(6) {
        let res: Vec<(Vec<Op>, u8, CaseOut)> = rt.block_on(async {
            let mut js = Vec::new();
            for (ops, policy, spec) in chunk.iter().cloned() {
                js.push(tokio::spawn(async move {
                    // sequential: a scripted connection kill must not hit another request's attempt
                    let r = run_ops(ops.clone(), policy, spec, true).await;
                    (ops, policy, r)
                }));
            }
            let mut v = Vec::new();
            for j in js {
                if let Ok(x) = j.await {
                    v.push(x);
                }
            }
            v
        });
        for (ops, policy, r) in &res {
            judge_c06(&mut out, ops, *policy, r);
            if ops.iter().any(|o| matches!(o.script.last(), Some(Att::OkAfter(_)))) {
                out.class("speculative-policy-configured:slow-answer-to-non-idempotent");
            }
        }
        if fw::stop_early(&mut out) {
            out.note("stopped_early_after_violations", json!(true));
            break;
        }
    }
    for c in ["api:QueryUnpaged", "api:ExecuteUnpaged", "api:Batch", "api:QuerySinglePage", "api:QueryIter", "api:ExecuteIter", "policy:default", "policy:downgrading", "policy:fallthrough",
        "non-idempotent:resent-after-proof-of-non-application", "non-idempotent:stopped", "decision:retry-same-target", "decision:retry-next-target",
        "speculative-policy-configured:slow-answer-to-non-idempotent", "paged:script-applies-to-a-later-page", "unprepared:answered-UNPREPARED-by-the-coordinator"] {
        out.require_class(c);
    }
    out
}

// ---------------------------------------------------------------------------
// C13 part b
// ---------------------------------------------------------------------------

fn judge_c13(o: &mut Outcome, ops: &[Op], max: usize, interval: u64, r: &CaseOut) {
    if let Some(e) = &r.build_error {
        o.inconclusive(format!("case could not start: {e}"));
        return;
    }
    for v in &r.violations {
        o.node_violation("c13b", &v, json!({}));
    }
    for op in ops {
        let frames = r.frames.get(&op.op).cloned().unwrap_or_default();
        let replay = json!({"part": "b", "max": max, "interval_ms": interval, "op": format!("{op:?}"),
            "frames": frames.iter().map(|f| format!("attempt {} node {} recv@{} answered@{:?} {:?}", f.attempt, f.node, f.recv_seq, f.answered_seq, f.outcome)).collect::<Vec<_>>(),
            "result": format!("{:?}", r.results.get(&op.op))});
        o.case(fw::hash64(format!("{max}:{interval}:{:?}:{}", op.script, op.idempotent).as_bytes()), true);
        o.class(if op.idempotent { "idempotent" } else { "non-idempotent" });
        o.class(&format!("api:{:?}", op.api));
        if op.lead > 0 {
            o.class("paged:script-applies-to-a-later-page");
        }
        if max == 0 {
            o.class("max-speculative-executions:0");
        }
        if r.hung.contains(&op.op) {
            o.violation("c13b:call-never-returned", format!("request {} did not return within 25 s", op.op), replay.clone());
            continue;
        }
        if frames.is_empty() {
            o.inconclusive("a request produced no frame");
            continue;
        }
        let ret = r.ret_seq.get(&op.op).copied().unwrap_or(u64::MAX);
        if !op.idempotent {
            // never in flight on two nodes at once: a later frame arrives only after the earlier one was answered
            for k in 1..frames.len() {
                let prev_done = frames[k - 1].answered_seq;
                let overlap = match prev_done {
                    None => true,
                    Some(s) => frames[k].recv_seq < s,
                };
                if overlap {
                    o.violation("c13b:non-idempotent-in-flight-twice", format!("non-idempotent request {} reached node {} while its earlier attempt at node {} was still unanswered", op.op, frames[k].node, frames[k - 1].node), replay.clone());
                }
            }
            if frames.len() == 1 {
                o.class("non-idempotent:single-execution-despite-slow-node");
            }
        } else {
            if frames.len() > 1 + max {
                o.violation("c13b:too-many-executions", format!("idempotent request {} was started {} times, 1 + max = {}", op.op, frames.len(), 1 + max), replay.clone());
            }
            let nodes: std::collections::BTreeSet<usize> = frames.iter().map(|f| f.node).collect();
            if nodes.len() != frames.len() {
                o.violation("c13b:same-target-used-twice", format!("idempotent request {}: executions went to nodes {:?}", op.op, frames.iter().map(|f| f.node).collect::<Vec<_>>()), replay.clone());
            }
            if frames.len() > 1 {
                o.class("idempotent:speculative-execution-started");
            } else if max == 0 {
                o.class("idempotent:no-speculation-with-max-0");
            }
            // first real answer wins: the only answers written before the call returned are the candidates
            if let Some(Ok(Some((rop, attempt, node)))) = r.results.get(&op.op) {
                let answered_before: Vec<&Frame> = frames.iter().filter(|f| matches!(f.outcome, Att::Ok | Att::OkAfter(_) ) && f.answered_seq.map(|s| s < ret).unwrap_or(false)).collect();
                if *rop as u64 != op.op || !answered_before.iter().any(|f| f.attempt == *attempt as usize && f.node == *node as usize) {
                    o.violation("c13b:returned-answer-not-a-sent-one", format!("request {} returned (op {rop}, attempt {attempt}, node {node}) which no node had written before the call returned", op.op), replay.clone());
                }
                if frames.iter().any(|f| f.outcome == Att::Withhold) {
                    o.class("idempotent:returned-while-slow-execution-still-pending");
                }
            } else if let Some(Err(e)) = r.results.get(&op.op) {
                // the call returned an error: a definitive error wins at once; an ignorable one may only be
                // returned once every started execution has finished
                let definitive_seen = frames.iter().any(|f| matches!(f.outcome, Att::Err("invalid")) && f.answered_seq.map(|s| s < ret).unwrap_or(false));
                if !definitive_seen {
                    if let Some(f) = frames.iter().find(|f| f.recv_seq < ret && f.answered_seq.map(|s| s > ret).unwrap_or(true)) {
                        o.violation("c13b:error-returned-while-an-execution-was-still-running", format!("request {} returned the error {e:?} although its execution at node {} (attempt {}) had not been answered yet and no definitive error had arrived", op.op, f.node, f.attempt), replay.clone());
                    } else {
                        o.class("idempotent:last-error-after-all-executions-finished");
                    }
                    if frames.iter().any(|f| matches!(f.outcome, Att::Ok | Att::OkAfter(_))) && frames.iter().all(|f| f.answered_seq.map(|s| s < ret).unwrap_or(false)) {
                        o.violation("c13b:answer-lost", format!("request {}: a node answered successfully before the call returned, but the call returned {e:?}", op.op), replay.clone());
                    }
                } else {
                    o.class("idempotent:definitive-error-returned");
                }
            } else if frames.iter().any(|f| matches!(f.outcome, Att::Ok)) {
                o.violation("c13b:answer-lost", format!("request {}: a node answered successfully but the call returned {:?}", op.op, r.results.get(&op.op)), replay.clone());
            }
        }
        if o.want_sample() {
            o.sample(replay);
        }
    }
}

pub fn run_c13_b(ctx: &Ctx) -> Outcome {
    let mut out = Outcome::new();
    let rt = runtime(ctx.workers.min(8));
    let mut rng = ctx.rng(1313);
    let n_cases = ctx.vol(100, 2000);
    let mut cases = Vec::new();
    for _ in 0..n_cases {
        let max = rng.usize(0, 3);
        let interval = *rng.pick(&[4u64, 9, 15]);
        let mut ops = Vec::new();
        for _ in 0..8 {
            // the first execution is slow (withheld until the call returns, or answers late);
            // later executions answer at once
            let first = if rng.bool() { Att::Withhold } else { Att::OkAfter(interval * *rng.pick(&[3u64, 8, 20])) };
            let later = |rng: &mut Rng| if rng.chance(1, 3) { Att::OkAfter(rng.below(interval * 3)) } else { Att::Ok };
            let script = vec![first, later(&mut rng), later(&mut rng), later(&mut rng), Att::Ok];
            ops.push(Op { op: next_op(), script, idempotent: rng.bool(), api: *rng.pick(&[Api::QueryUnpaged, Api::ExecuteUnpaged, Api::QueryIter, Api::ExecuteIter]), cl: Consistency::One, lead: 0 });
        }
        // with max = 0 no second execution may ever start: a withheld first answer would never be released
        if max == 0 {
            for o in ops.iter_mut() {
                o.script[0] = Att::OkAfter(interval * 8);
            }
        }
        // a withheld first answer of a NON-idempotent request would never be released: give those a late answer instead
        for o in ops.iter_mut() {
            if !o.idempotent {
                o.script[0] = Att::OkAfter(interval * 8);
            }
        }
        for o in ops.iter_mut() {
            if matches!(o.api, Api::QueryIter | Api::ExecuteIter) && rng.chance(2, 3) {
                o.lead = rng.usize(1, 2);
            }
        }
        cases.push((ops, max, interval, 0u8));
    }
    // Executions that FAIL (Fallthrough retry policy, so every execution is exactly one frame): an ignorable
    // error (overloaded) must not end the call while another execution is still running or may still start;
    // a definitive error (invalid) ends it; with max >= plan length the plan runs out (a fiber finds no target).
    for _ in 0..n_cases {
        let max = rng.usize(1, 4);
        let interval = *rng.pick(&[4u64, 9]);
        let mut ops = Vec::new();
        for _ in 0..6 {
            let slow = Att::OkAfter(interval * *rng.pick(&[6u64, 12, 25]));
            let mut script = vec![slow];
            for _ in 0..4 {
                script.push(match rng.below(6) {
                    0 | 1 => Att::Err("overloaded"),
                    2 => Att::Err("invalid"),
                    3 => Att::OkAfter(rng.below(interval * 2)),
                    _ => Att::Ok,
                });
            }
            if rng.chance(1, 3) {
                // everything but the slow first execution fails with an ignorable error
                for a in script.iter_mut().skip(1) {
                    *a = Att::Err("overloaded");
                }
            }
            ops.push(Op { op: next_op(), script, idempotent: true, api: *rng.pick(&[Api::QueryUnpaged, Api::ExecuteUnpaged, Api::QueryIter, Api::ExecuteIter]), cl: Consistency::One, lead: 0 });
        }
        for o in ops.iter_mut() {
            if matches!(o.api, Api::QueryIter | Api::ExecuteIter) && rng.chance(2, 3) {
                o.lead = rng.usize(1, 2);
            }
        }
        cases.push((ops, max, interval, 2u8));
    }
    for chunk in cases.chunks(6) {
        let res: Vec<(Vec<Op>, usize, u64, CaseOut)> = rt.block_on(async {
            let mut js = Vec::new();
            for (ops, max, interval, policy) in chunk.iter().cloned() {
                js.push(tokio::spawn(async move {
                    let r = run_ops(ops.clone(), policy, Some((max, interval)), false).await;
                    (ops, max, interval, r)
                }));
            }
            let mut v = Vec::new();
            for j in js {
                if let Ok(x) = j.await {
                    v.push(x);
                }
            }
            v
        });
        for (ops, max, interval, r) in &res {
            judge_c13(&mut out, ops, *max, *interval, r);
        }
        if fw::stop_early(&mut out) {
            out.note("stopped_early_after_violations", json!(true));
            break;
        }
    }
    for c in ["api:QueryIter", "api:ExecuteIter", "paged:script-applies-to-a-later-page", "max-speculative-executions:0", "idempotent:definitive-error-returned", "idempotent", "non-idempotent", "idempotent:speculative-execution-started", "non-idempotent:single-execution-despite-slow-node", "idempotent:returned-while-slow-execution-still-pending"] {
        out.require_class(c);
    }
    out
}
