//! C06 — a request not marked idempotent is never re-sent after it may have been applied.
//!
//! Workload "a" (this file, hook level): WHOLE HISTORIES of per-attempt failures are fed
//! to one `RetrySession` of each built-in policy, following every decision (a retry
//! decision ⇒ one more attempt at the consistency the decision names; anything else ends
//! the history). `RequestInfo` is built with the hook `verif_hooks::request_info`. Every
//! history is judged by the safety table in `refmodel::retry`.
//! Workload "b" (end to end: the execution loop sends exactly the decided attempts) is
//! built separately — see `part_b` at the bottom.
use crate::fw::{self, Ctx, Outcome, Rng};
use crate::refmodel::retry::{self as model, Decision, Family, Policy, Step};
use scylla::errors::{
    BrokenConnectionErrorKind, CqlErrorParseError, CqlRequestSerializationError, CqlResponseKind, CqlResultParseError, DbError, OperationType,
    RequestAttemptError, SerializationError, WriteType,
};
use scylla::policies::retry::{DefaultRetryPolicy, DowngradingConsistencyRetryPolicy, FallthroughRetryPolicy, RetryDecision, RetryPolicy};
use scylla::statement::Consistency;
use scylla::verif_hooks as hooks;
use serde_json::{Value, json};
use std::sync::Arc;

// ---------------------------------------------------------------------------------
// error classes: concrete error values, each labelled with the family the STATEMENT
// puts it in (the label is assigned here, where the value is written down, never by
// asking the driver)
// ---------------------------------------------------------------------------------

pub struct Class {
    pub name: String,
    pub family: Family,
    pub err: RequestAttemptError,
}

#[derive(Debug)]
struct Custom(&'static str);
impl std::fmt::Display for Custom {
    fn fmt(&self, f: &mut std::fmt::Formatter<'_>) -> std::fmt::Result {
        f.write_str(self.0)
    }
}
impl std::error::Error for Custom {}

fn db(e: DbError) -> RequestAttemptError {
    RequestAttemptError::DbError(e, "injected".to_owned())
}

fn classes() -> Vec<Class> {
    let mut v: Vec<Class> = Vec::new();
    let mut add = |name: String, family: Family, err: RequestAttemptError| v.push(Class { name, family, err });
    let cl = Consistency::Quorum;

    // broken connection, several reasons
    add("broken:unexpected-stream-id".into(), Family::BrokenConnection, RequestAttemptError::BrokenConnectionError(BrokenConnectionErrorKind::UnexpectedStreamId(7).into()));
    add(
        "broken:io-write".into(),
        Family::BrokenConnection,
        RequestAttemptError::BrokenConnectionError(BrokenConnectionErrorKind::WriteError(std::io::Error::from(std::io::ErrorKind::BrokenPipe)).into()),
    );
    add("broken:channel".into(), Family::BrokenConnection, RequestAttemptError::BrokenConnectionError(BrokenConnectionErrorKind::ChannelError.into()));
    add(
        "broken:keepalive-timeout".into(),
        Family::BrokenConnection,
        RequestAttemptError::BrokenConnectionError(BrokenConnectionErrorKind::KeepaliveTimeout("127.0.0.1".parse().unwrap()).into()),
    );
    add("no-stream-id".into(), Family::NoStreamId, RequestAttemptError::UnableToAllocStreamId);

    // DbError, field-less variants
    add("overloaded".into(), Family::Overloaded, db(DbError::Overloaded));
    add("server-error".into(), Family::ServerError, db(DbError::ServerError));
    add("truncate-error".into(), Family::TruncateError, db(DbError::TruncateError));
    add("is-bootstrapping".into(), Family::IsBootstrapping, db(DbError::IsBootstrapping));
    add("syntax-error".into(), Family::Other, db(DbError::SyntaxError));
    add("invalid".into(), Family::Other, db(DbError::Invalid));
    add("authentication-error".into(), Family::Other, db(DbError::AuthenticationError));
    add("unauthorized".into(), Family::Other, db(DbError::Unauthorized));
    add("config-error".into(), Family::Other, db(DbError::ConfigError));
    add("protocol-error".into(), Family::Other, db(DbError::ProtocolError));
    add("other(0x9999)".into(), Family::Other, db(DbError::Other(0x9999)));
    add("other(-1)".into(), Family::Other, db(DbError::Other(-1)));
    add("already-exists".into(), Family::Other, db(DbError::AlreadyExists { keyspace: "ks".into(), table: "t".into() }));
    add("function-failure".into(), Family::Other, db(DbError::FunctionFailure { keyspace: "ks".into(), function: "f".into(), arg_types: vec!["int".into()] }));
    add("unprepared".into(), Family::Other, db(DbError::Unprepared { statement_id: bytes::Bytes::from_static(b"\x01\x02") }));
    for by_coord in [false, true] {
        for (op, opn) in [(OperationType::Read, "read"), (OperationType::Write, "write"), (OperationType::Other(9), "other")] {
            add(format!("rate-limit:{opn}:{by_coord}"), Family::Other, db(DbError::RateLimitReached { op_type: op, rejected_by_coordinator: by_coord }));
        }
    }

    // Unavailable {required, alive}
    for (required, alive) in [(1, 0), (2, 1), (3, 2), (5, 3), (7, 4), (2, 2), (1, -1), (i32::MAX, i32::MAX), (0, i32::MIN)] {
        add(format!("unavailable:req{required}:alive{alive}"), Family::Unavailable, db(DbError::Unavailable { consistency: cl, required, alive }));
    }
    // ReadTimeout {received, required, data_present}
    for (received, required) in [(0, 1), (1, 2), (2, 3), (3, 5), (4, 5), (2, 2), (3, 2), (-1, 0), (i32::MAX, i32::MIN), (i32::MIN, i32::MAX)] {
        for data_present in [false, true] {
            add(
                format!("read-timeout:recv{received}:req{required}:data{data_present}"),
                Family::ReadTimeout,
                db(DbError::ReadTimeout { consistency: cl, received, required, data_present }),
            );
        }
    }
    // WriteTimeout {received, required, write_type}
    let wts: [(WriteType, &str); 9] = [
        (WriteType::Simple, "simple"),
        (WriteType::Batch, "batch"),
        (WriteType::UnloggedBatch, "unlogged-batch"),
        (WriteType::Counter, "counter"),
        (WriteType::BatchLog, "batch-log"),
        (WriteType::Cas, "cas"),
        (WriteType::View, "view"),
        (WriteType::Cdc, "cdc"),
        (WriteType::Other("FUTURE".into()), "other"),
    ];
    for (wt, wtn) in &wts {
        let recvs: &[i32] = if matches!(wt, WriteType::UnloggedBatch) { &[0, 1, 2, 3, 4, -1] } else { &[0, 1] };
        for received in recvs {
            add(
                format!("write-timeout:{wtn}:recv{received}"),
                Family::WriteTimeout,
                db(DbError::WriteTimeout { consistency: cl, received: *received, required: 2, write_type: wt.clone() }),
            );
        }
    }
    // failures
    for data_present in [false, true] {
        add(
            format!("read-failure:data{data_present}"),
            Family::Other,
            db(DbError::ReadFailure { consistency: cl, received: 1, required: 2, numfailures: 1, data_present }),
        );
    }
    for (wt, wtn) in [(WriteType::Simple, "simple"), (WriteType::BatchLog, "batch-log"), (WriteType::UnloggedBatch, "unlogged-batch")] {
        add(
            format!("write-failure:{wtn}"),
            Family::Other,
            db(DbError::WriteFailure { consistency: cl, received: 1, required: 2, numfailures: 1, write_type: wt }),
        );
    }
    // client-side / parse errors
    add("parse:body-extensions".into(), Family::Other, RequestAttemptError::BodyExtensionsParseError(scylla::errors::FrameBodyExtensionsParseError::NoCompressionNegotiated));
    add("parse:result".into(), Family::Other, RequestAttemptError::CqlResultParseError(CqlResultParseError::UnknownResultId(99)));
    add(
        "parse:error".into(),
        Family::Other,
        RequestAttemptError::CqlErrorParseError(CqlErrorParseError::ErrorCodeParseError(
            scylla_cql_core::frame::frame_errors::LowLevelDeserializationError::TooFewBytesReceived { expected: 4, received: 1 },
        )),
    );
    add("unexpected-response".into(), Family::Other, RequestAttemptError::UnexpectedResponse(CqlResponseKind::Ready));
    add(
        "reprepared-id-changed".into(),
        Family::Other,
        RequestAttemptError::RepreparedIdChanged { statement: "s".into(), expected_id: vec![1], reprepared_id: vec![2] },
    );
    add("reprepared-id-missing-in-batch".into(), Family::Other, RequestAttemptError::RepreparedIdMissingInBatch);
    add("nonfinished-paging-state".into(), Family::Other, RequestAttemptError::NonfinishedPagingState);
    add("serialization-error".into(), Family::Other, RequestAttemptError::SerializationError(SerializationError::new(Custom("values"))));
    add(
        "request-serialization".into(),
        Family::Other,
        RequestAttemptError::CqlRequestSerialization(CqlRequestSerializationError::SnapCompressError(Arc::new(Custom("snap")))),
    );
    v
}

const CLS: [Consistency; 11] = [
    Consistency::Any,
    Consistency::One,
    Consistency::Two,
    Consistency::Three,
    Consistency::Quorum,
    Consistency::All,
    Consistency::LocalQuorum,
    Consistency::EachQuorum,
    Consistency::LocalOne,
    Consistency::Serial,
    Consistency::LocalSerial,
];

fn is_serial(c: Consistency) -> bool {
    // CQL protocol: SERIAL = 0x0008, LOCAL_SERIAL = 0x0009
    matches!(c as u16, 0x0008 | 0x0009)
}

fn policy_obj(p: Policy) -> Box<dyn RetryPolicy> {
    match p {
        Policy::Default => Box::new(DefaultRetryPolicy::new()),
        Policy::Downgrading => Box::new(DowngradingConsistencyRetryPolicy::new()),
        Policy::Fallthrough => Box::new(FallthroughRetryPolicy::new()),
    }
}

// ---------------------------------------------------------------------------------
// one history through one RetrySession
// ---------------------------------------------------------------------------------

struct Trace {
    steps: Vec<Step>,
    /// consistency of every attempt made
    cls: Vec<Consistency>,
    unknown_decision: Option<String>,
}

/// Feeds `history` (indices into `classes`) to a fresh session, stopping where the policy stops.
fn run_history(pol: &dyn RetryPolicy, classes: &[Class], history: &[usize], idempotent: bool, cl0: Consistency) -> Trace {
    let mut session = pol.new_session();
    let mut cl = cl0;
    let mut t = Trace { steps: Vec::with_capacity(history.len()), cls: Vec::with_capacity(history.len()), unknown_decision: None };
    for &c in history {
        let class = &classes[c];
        t.cls.push(cl);
        let d = session.decide_should_retry(hooks::request_info(&class.err, idempotent, cl));
        let (decision, new_cl) = match d {
            RetryDecision::RetrySameTarget(n) => (Decision::RetrySameTarget, n),
            RetryDecision::RetryNextTarget(n) => (Decision::RetryNextTarget, n),
            RetryDecision::DontRetry => (Decision::DontRetry, None),
            RetryDecision::IgnoreWriteError => (Decision::IgnoreWriteError, None),
            other => {
                t.unknown_decision = Some(format!("{other:?}"));
                break;
            }
        };
        t.steps.push(Step { family: class.family, idempotent, serial: is_serial(cl), decision });
        if !decision.resends() {
            break;
        }
        if let Some(n) = new_cl {
            cl = n;
        }
    }
    t
}

fn replay_json(p: Policy, classes: &[Class], history: &[usize], idempotent: bool, cl0: Consistency) -> Value {
    json!({
        "part": "a",
        "policy": p.name(),
        "idempotent": idempotent,
        "initial_consistency": format!("{cl0:?}"),
        "history": history.iter().map(|c| classes[*c].name.clone()).collect::<Vec<_>>(),
    })
}

/// Evaluates one history; returns whether the policy asked for one more attempt after it.
fn evaluate(o: &mut Outcome, p: Policy, pol: &dyn RetryPolicy, classes: &[Class], history: &[usize], idempotent: bool, cl0: Consistency, distinct_cap: usize) -> bool {
    let t = run_history(pol, classes, history, idempotent, cl0);
    let mut kb: Vec<u8> = vec![p as u8, idempotent as u8, cl0 as u16 as u8];
    kb.extend(history.iter().map(|c| *c as u8));
    let nontrivial = history.len() >= 2 && o.distinct.len() < distinct_cap;
    o.case(fw::hash64(&kb), nontrivial);
    if let Some(u) = &t.unknown_decision {
        o.inconclusive(format!("RetryDecision variant unknown to the harness: {u}"));
        return false;
    }
    let Some(last) = t.steps.last().copied() else { return false };

    // coverage (about the last step: earlier ones were counted when the prefix was evaluated)
    if !idempotent {
        if last.decision.resends() {
            o.class("non-idempotent:resent-after-proof-of-non-application");
        } else if !last.family.proves_not_applied() {
            o.class("non-idempotent:stopped-after-possible-application");
        }
    }
    if last.serial {
        o.class(if p == Policy::Default { "default:serial-consistency" } else { "other-policy:serial-consistency" });
    }
    match last.decision {
        Decision::RetrySameTarget => o.class("decision:retry-same-target"),
        Decision::RetryNextTarget => o.class("decision:retry-next-target"),
        Decision::DontRetry => o.class("decision:dont-retry"),
        Decision::IgnoreWriteError => o.class("decision:ignore-write-error"),
    }
    if t.cls.last() != Some(&cl0) {
        o.class("attempt-at-downgraded-consistency");
    }
    if t.steps.len() >= 3 {
        o.class("history-of-3-or-more-attempts");
    }
    if last.decision == Decision::RetrySameTarget {
        // counted once per history; the maximum per policy is reported as a note
        o.class(&format!("same-target-retries-in-one-request:{}:{}", p.name(), model::same_target_retries(&t.steps).min(9)));
    }

    for (sig, msg) in model::judge(p, &t.steps) {
        o.violation(
            sig,
            format!(
                "{msg} [policy={} idempotent={idempotent} initial CL={cl0:?} history={:?} decisions={:?} CLs={:?}]",
                p.name(),
                history.iter().map(|c| classes[*c].name.as_str()).collect::<Vec<_>>(),
                t.steps.iter().map(|s| s.decision).collect::<Vec<_>>(),
                t.cls
            ),
            replay_json(p, classes, history, idempotent, cl0),
        );
    }
    // the whole history was consumed and the policy wants yet another attempt
    t.steps.len() == history.len() && last.decision.resends()
}

fn wants_more(pol: &dyn RetryPolicy, classes: &[Class], history: &[usize], idempotent: bool, cl0: Consistency) -> bool {
    let t = run_history(pol, classes, history, idempotent, cl0);
    t.unknown_decision.is_none() && t.steps.len() == history.len() && t.steps.last().is_some_and(|s| s.decision.resends())
}

/// Evaluates every history of exactly `target_len` attempts that extends `prefix` and that the
/// policy lets happen (every proper prefix ends in a retry decision). Calling it for
/// target_len = 1, 2, ... (iterative deepening) makes the first report of a defect a shortest one.
#[allow(clippy::too_many_arguments)]
fn level(o: &mut Outcome, p: Policy, pol: &dyn RetryPolicy, classes: &[Class], prefix: &mut Vec<usize>, idempotent: bool, cl0: Consistency, target_len: usize, cap: usize) {
    if prefix.len() == target_len {
        evaluate(o, p, pol, classes, prefix, idempotent, cl0, cap);
        return;
    }
    if !wants_more(pol, classes, prefix, idempotent, cl0) {
        return;
    }
    for c in 0..classes.len() {
        prefix.push(c);
        level(o, p, pol, classes, prefix, idempotent, cl0, target_len, cap);
        prefix.pop();
    }
}

fn replay(path: &str) -> Outcome {
    let mut o = Outcome::new();
    let v: Value = serde_json::from_str(&std::fs::read_to_string(path).expect("replay file")).expect("json");
    let r = &v["replay"];
    let classes = classes();
    let parsed = (|| {
        let p = Policy::from_name(r["policy"].as_str()?)?;
        let idem = r["idempotent"].as_bool()?;
        let cl0 = CLS.into_iter().find(|c| Some(format!("{c:?}").as_str()) == r["initial_consistency"].as_str())?;
        let hist = r["history"].as_array()?.iter().map(|n| classes.iter().position(|c| Some(c.name.as_str()) == n.as_str())).collect::<Option<Vec<_>>>()?;
        Some((p, idem, cl0, hist))
    })();
    let Some((p, idem, cl0, hist)) = parsed else {
        o.inconclusive("unrecognised replay file");
        return o;
    };
    let pol = policy_obj(p);
    for n in 1..=hist.len() {
        evaluate(&mut o, p, pol.as_ref(), &classes, &hist[..n], idem, cl0, usize::MAX);
    }
    o
}

fn random_long_history(rng: &mut Rng, classes: &[Class], retry_prone: &[usize], len: usize) -> Vec<usize> {
    (0..len).map(|_| if rng.chance(9, 10) { *rng.pick(retry_prone) } else { rng.below(classes.len() as u64) as usize }).collect()
}

const REQUIRED: [&str; 10] = [
    "non-idempotent:resent-after-proof-of-non-application",
    "non-idempotent:stopped-after-possible-application",
    "default:serial-consistency",
    "other-policy:serial-consistency",
    "decision:retry-same-target",
    "decision:retry-next-target",
    "decision:dont-retry",
    "decision:ignore-write-error",
    "attempt-at-downgraded-consistency",
    "history-of-3-or-more-attempts",
];

fn part_a(ctx: &Ctx) -> Outcome {
    if let Some(p) = &ctx.replay {
        return replay(p);
    }
    let classes = classes();
    let max_len: usize = if ctx.miri() {
        2
    } else if ctx.quick() {
        4
    } else {
        5
    };
    let workers = ctx.workers.max(1);
    let distinct_cap = 4_000_000 / workers;
    // work items of the exhaustive part: (policy, idempotent, initial CL, first class)
    let mut items: Vec<(Policy, bool, Consistency, usize)> = Vec::new();
    for p in Policy::ALL {
        for idem in [false, true] {
            for cl0 in CLS {
                for c in 0..classes.len() {
                    items.push((p, idem, cl0, c));
                }
            }
        }
    }
    let long_len = 16usize;
    let random_long = if ctx.miri() { 50 } else { ctx.vol(300_000, 6_000_000) } / workers as u64;
    let classes_ref = &classes;
    let items_ref = &items;

    let mut out = fw::par(ctx, workers, |w, mut rng| {
        let mut o = Outcome::new();
        let classes = classes_ref;
        let pols: Vec<(Policy, Box<dyn RetryPolicy>)> = Policy::ALL.into_iter().map(|p| (p, policy_obj(p))).collect();
        let pol_of = |p: Policy| pols.iter().find(|(q, _)| *q == p).map(|(_, b)| b.as_ref()).unwrap();

        // (1) exhaustive: every history up to max_len that the policy lets happen
        for target_len in 1..=max_len {
            for (i, (p, idem, cl0, c)) in items_ref.iter().enumerate() {
                if i % workers != w {
                    continue;
                }
                let mut prefix = vec![*c];
                level(&mut o, *p, pol_of(*p), classes, &mut prefix, *idem, *cl0, target_len, distinct_cap);
            }
        }
        o.class("exhaustive-histories");

        // (2) boundedness: the same failure again and again
        for (i, (p, idem, cl0, c)) in items_ref.iter().enumerate() {
            if i % workers != w {
                continue;
            }
            let h = vec![*c; long_len];
            evaluate(&mut o, *p, pol_of(*p), classes, &h, *idem, *cl0, distinct_cap);
        }
        o.class("long-identical-histories");

        // (3) long random histories made mostly of failures some policy retries on
        let retry_prone: Vec<usize> = (0..classes.len()).filter(|c| classes[*c].family != Family::Other).collect();
        for _ in 0..random_long {
            let p = *rng.pick(&[Policy::Default, Policy::Default, Policy::Downgrading, Policy::Downgrading, Policy::Fallthrough]);
            let idem = rng.bool();
            let cl0 = *rng.pick(&CLS);
            let len = rng.usize(max_len + 1, long_len);
            let h = random_long_history(&mut rng, classes, &retry_prone, len);
            evaluate(&mut o, p, pol_of(p), classes, &h, idem, cl0, distinct_cap);
        }
        o.class("long-random-histories");

        if w == 0 {
            // literal samples
            let idx = |n: &str| classes.iter().position(|c| c.name == n).expect("class name");
            let lits: [(Policy, bool, Consistency, Vec<&str>); 5] = [
                (Policy::Default, false, Consistency::Quorum, vec!["unavailable:req2:alive1", "is-bootstrapping", "write-timeout:batch-log:recv0"]),
                (Policy::Default, true, Consistency::Quorum, vec!["read-timeout:recv2:req2:datafalse", "read-timeout:recv2:req2:datafalse", "overloaded"]),
                (Policy::Default, true, Consistency::LocalSerial, vec!["no-stream-id"]),
                (Policy::Downgrading, false, Consistency::All, vec!["unavailable:req3:alive2", "write-timeout:unlogged-batch:recv1"]),
                (Policy::Downgrading, true, Consistency::EachQuorum, vec!["write-timeout:simple:recv1"]),
            ];
            for (p, idem, cl0, names) in lits {
                let h: Vec<usize> = names.iter().map(|n| idx(n)).collect();
                let t = run_history(pol_of(p), classes, &h, idem, cl0);
                o.sample(json!({
                    "policy": p.name(), "idempotent": idem, "initial_consistency": format!("{cl0:?}"), "history": names,
                    "decisions": t.steps.iter().map(|s| format!("{:?}", s.decision)).collect::<Vec<_>>(),
                    "attempt_consistencies": t.cls.iter().map(|c| format!("{c:?}")).collect::<Vec<_>>(),
                    "oracle_objections": model::judge(p, &t.steps).into_iter().map(|(s, _)| s).collect::<Vec<_>>(),
                }));
                evaluate(&mut o, p, pol_of(p), classes, &h, idem, cl0, usize::MAX);
            }
        }
        o
    });
    for p in Policy::ALL {
        let max = (0..=9usize).rev().find(|n| out.classes.contains_key(&format!("same-target-retries-in-one-request:{}:{n}", p.name()))).unwrap_or(0);
        out.note(&format!("max_same_target_retries_seen_{}", p.name()), json!(max));
    }
    for c in REQUIRED {
        out.require_class(c);
    }
    out.exhaustive = Some(true);
    out.note("error_classes", json!(classes.len()));
    out.note(
        "exhaustive_part",
        json!(format!(
            "every history of length <= {max_len} over {} error classes that the policy lets happen (a history ends where the policy stops) x idempotent x 11 initial consistencies x 3 policies",
            classes.len()
        )),
    );
    out
}

// ---------------------------------------------------------------------------------
// WORKLOAD B — end to end (real Session + mock cluster + recording RetryPolicy): frames
// sent == 1 + retry decisions, on the named target, at the named consistency. To be
// filled in by the coordinator; `classes()`, `run_history` and `refmodel::retry::judge`
// are reusable for it.
// ---------------------------------------------------------------------------------
fn part_b(ctx: &Ctx) -> Outcome {
    crate::checks::retry_e2e::run_c06_b(ctx)
}

/// Part named by `--part`, or, when replaying, by the replay file itself.
fn selected_part(ctx: &Ctx) -> Option<String> {
    if let Some(p) = &ctx.part {
        return Some(p.clone());
    }
    let path = ctx.replay.as_ref()?;
    let v: Value = serde_json::from_str(&std::fs::read_to_string(path).ok()?).ok()?;
    v["replay"]["part"].as_str().map(|s| s.to_owned())
}

pub fn run(ctx: &Ctx) -> Outcome {
    match selected_part(ctx).as_deref() {
        // no part named: everything that is built (today: part a only)
        None | Some("a") => part_a(ctx),
        Some("b") => part_b(ctx),
        Some(p) => {
            let mut o = Outcome::new();
            o.inconclusive(format!("C06 has no part {p:?}"));
            o
        }
    }
}
