//! C12 — token-aware requests are first sent to an owning replica and shard.
//!
//! Mock clusters of 1..6 nodes, several DCs, sharded and unsharded nodes, vnode
//! and tablet keyspaces. The oracle composes the independent token (C03),
//! placement (C04) and sharding (C11) models with what the test itself arranged
//! (which nodes are up, what the load-balancing policy permits). Observation:
//! node and server-assigned shard of the FIRST EXECUTE frame of each request.

use super::e2e::*;
use crate::fw::{self, Ctx, Outcome, Rng};
use crate::mock::log::Ev;
use crate::mock::*;
use crate::refmodel::{murmur3, replication, sharding};
use crate::wire::frame::Envelope;
use crate::wire::prim::Value;
use crate::wire::request::Request;
use crate::wire::response::*;
use scylla::client::execution_profile::ExecutionProfile;
use scylla::client::PoolSize;
use scylla::policies::load_balancing::DefaultPolicy;
use serde_json::json;
use std::collections::{BTreeMap, HashMap};
use std::num::NonZeroUsize;
use std::sync::atomic::Ordering;
use std::sync::{Arc, Mutex};
use std::time::Duration;

const INS1: &str = "INSERT INTO ks.t1 (pk, v) VALUES (?, ?)";
const INS2: &str = "INSERT INTO ks.t2 (v, b, a) VALUES (?, ?, ?)";
const INST: &str = "INSERT INTO tks.tt (pk, v) VALUES (?, ?)";

#[derive(Clone, Debug)]
struct Tablet {
    /// exclusive lower bound, inclusive upper bound (as ScyllaDB sends them)
    first_excl: i64,
    last: i64,
    replicas: Vec<(usize, u16)>, // (node idx, shard)
}

#[derive(Clone, Debug)]
struct World {
    nodes: Vec<NodeSpec>,
    up: Vec<bool>,
    strategy: Strat,
    prefer_dc: Option<String>,
    prefer_rack: Option<String>,
    failover: bool,
    pool: (bool, usize), // (per shard?, size)
    tablets: Vec<Tablet>,
    seed: u64,
}

#[derive(Clone, Debug)]
enum Strat {
    Simple(usize),
    Nts(BTreeMap<String, usize>),
}

struct H12 {
    tablets: Vec<Tablet>,
    host_ids: Mutex<Vec<uuid::Uuid>>,
    /// first frames per op: (node, conn shard, recv seq)
    frames: Mutex<HashMap<u64, Vec<(usize, Option<u16>, u64)>>>,
    announced: Mutex<Vec<(usize, u64)>>, // (tablet index, seq of the answer)
}

fn token_of_values(query: &str, values: &[Value]) -> Option<(u64, i64)> {
    let b = |v: &Value| match v {
        Value::Bytes(b) => Some(b.clone()),
        _ => None,
    };
    if query == INS1 || query == INST {
        let pk = b(values.first()?)?;
        let op = match values.get(1)? {
            Value::Bytes(x) if x.len() == 8 => u64::from_be_bytes(x.as_slice().try_into().ok()?),
            _ => return None,
        };
        Some((op, murmur3::murmur3_token(&pk)))
    } else if query == INS2 {
        // partition key (a, b): bind markers are (v, b, a) - key order differs from marker order
        let v = b(values.first()?)?;
        let bb = b(values.get(1)?)?;
        let a = b(values.get(2)?)?;
        let op = u64::from_be_bytes(v.as_slice().try_into().ok()?);
        let comp = murmur3::composite(&[&a, &bb])?;
        Some((op, murmur3::murmur3_token(&comp)))
    } else {
        None
    }
}

impl Handler for H12 {
    fn statement(&self, _node: &MockNode, query: &str) -> Option<StatementDef> {
        let mut d = StatementDef::new(query, &fw::hash_str(query).to_be_bytes());
        if query == INS1 {
            d.bind = vec![ColSpec::new("ks", "t1", "pk", ColType::BigInt), ColSpec::new("ks", "t1", "v", ColType::BigInt)];
            d.pk_indexes = vec![0];
        } else if query == INST {
            d.bind = vec![ColSpec::new("tks", "tt", "pk", ColType::BigInt), ColSpec::new("tks", "tt", "v", ColType::BigInt)];
            d.pk_indexes = vec![0];
        } else if query == INS2 {
            d.bind = vec![ColSpec::new("ks", "t2", "v", ColType::BigInt), ColSpec::new("ks", "t2", "b", ColType::Text), ColSpec::new("ks", "t2", "a", ColType::BigInt)];
            // first key column a is marker 2, second key column b is marker 1
            d.pk_indexes = vec![2, 1];
        } else {
            return None;
        }
        Some(d)
    }
    fn on_request(&self, rq: Rq) {
        let Request::Execute { params, .. } = &*rq.request else {
            rq.void();
            return;
        };
        let q = rq.statement.as_ref().map(|s| s.query.clone()).unwrap_or_default();
        let Some((op, token)) = params.values.as_ref().and_then(|v| token_of_values(&q, v)) else {
            rq.void();
            return;
        };
        self.frames.lock().unwrap().entry(op).or_default().push((rq.node.idx, rq.conn.shard, rq.seq));
        // tablet feedback: a request for a tablet table that reached a non-replica / wrong shard
        if q == INST {
            if let Some((ti, t)) = self.tablets.iter().enumerate().find(|(_, t)| token > t.first_excl && token <= t.last) {
                let right = t.replicas.iter().any(|(n, s)| *n == rq.node.idx && (rq.conn.shard.is_none() || rq.conn.shard == Some(*s)));
                if !right {
                    let ids = self.host_ids.lock().unwrap();
                    let reps: Vec<(uuid::Uuid, i32)> = t.replicas.iter().map(|(n, s)| (ids[*n], *s as i32)).collect();
                    let mut payload = BTreeMap::new();
                    payload.insert("tablets-routing-v1".to_string(), enc::tablet_payload(t.first_excl, t.last, &reps));
                    let env = Envelope { custom_payload: Some(payload), ..Default::default() };
                    self.announced.lock().unwrap().push((ti, rq.cluster.log.counter()));
                    rq.reply_env(&env, &Response::Result(ResultBody::Void));
                    return;
                }
            }
        }
        rq.void();
    }
}

fn gen_world(rng: &mut Rng, seed: u64) -> World {
    // a quarter of the worlds are "rack-heavy": 5..8 nodes in one or two datacenters with two racks each and
    // replication factors above the rack count (racks repeat among the replicas)
    // an eighth are "sparse": three datacenters of which one or two hold NO replica of the keyspace, a third
    // of the nodes down, no datacenter preference or failover permitted (requests must find the replicas that
    // lie behind a replica-less datacenter)
    let kind = rng.below(8);
    let rack_heavy = kind < 2;
    let sparse = kind == 2;
    let n = if rack_heavy { rng.usize(5, 8) } else if sparse { rng.usize(4, 6) } else { rng.usize(1, 6) };
    let dcs = if rack_heavy { rng.usize(1, 2) } else if sparse { 3 } else { rng.usize(1, 3.min(n)) };
    let all_scylla = rng.chance(2, 3);
    let mut nodes = Vec::new();
    for i in 0..n {
        let dc = format!("dc{}", i % dcs);
        let rack = format!("r{}", rng.below(if rack_heavy { 2 } else { 3 }));
        let vn = rng.usize(1, 4);
        let tokens: Vec<i64> = (0..vn).map(|_| rng.u64() as i64).collect();
        let sharded = all_scylla && rng.chance(4, 5);
        nodes.push(NodeSpec {
            dc: Some(dc),
            rack: Some(rack),
            tokens,
            sharding: if sharded { Some(ShardSpec { nr_shards: rng.usize(1, 8) as u16, msb_ignore: *rng.pick(&[0u8, 12]), shard_aware_port: rng.chance(3, 4) }) } else { None },
            features: Features { tablets: all_scylla, ..Default::default() },
        });
    }
    let mut up: Vec<bool> = (0..n).map(|_| if sparse { rng.chance(2, 3) } else { rng.chance(5, 6) }).collect();
    up[0] = true; // the contact point
    let strategy = if rack_heavy {
        let mut m = BTreeMap::new();
        for d in 0..dcs {
            m.insert(format!("dc{d}"), rng.usize(2, 4));
        }
        Strat::Nts(m)
    } else if sparse {
        let mut m = BTreeMap::new();
        let empty_a = rng.below(3);
        let empty_b = rng.below(3);
        for d in 0..3u64 {
            m.insert(format!("dc{d}"), if d == empty_a || (d == empty_b && rng.bool()) { 0 } else { rng.usize(1, 2) });
        }
        if m.values().all(|v| *v == 0) {
            m.insert("dc2".into(), 1);
        }
        Strat::Nts(m)
    } else if dcs > 1 && rng.chance(2, 3) {
        let mut m = BTreeMap::new();
        for d in 0..dcs {
            m.insert(format!("dc{d}"), rng.usize(0, 3));
        }
        if m.values().all(|v| *v == 0) {
            m.insert("dc0".into(), 1);
        }
        Strat::Nts(m)
    } else {
        Strat::Simple(rng.usize(1, 3))
    };
    let prefer = if sparse && rng.bool() { 0 } else { rng.below(3) };
    let prefer_dc = if prefer > 0 { Some(format!("dc{}", rng.below(dcs as u64))) } else { None };
    let prefer_rack = if prefer == 2 { Some(format!("r{}", rng.below(3))) } else { None };
    // tablets: split the ring into 2..6 ranges, replicas among sharded nodes
    let mut tablets = Vec::new();
    if all_scylla {
        let k = rng.usize(2, 6);
        let mut bounds: Vec<i64> = (0..k - 1).map(|_| rng.u64() as i64).collect();
        bounds.sort();
        bounds.dedup();
        let mut lo = i64::MIN;
        for b in bounds.iter().copied().chain([i64::MAX]) {
            if b <= lo {
                continue;
            }
            let mut reps = Vec::new();
            let rf = rng.usize(1, 3.min(n));
            let mut cand: Vec<usize> = (0..n).collect();
            rng.shuffle(&mut cand);
            for c in cand.into_iter().take(rf) {
                let shards = nodes[c].sharding.map(|s| s.nr_shards).unwrap_or(1);
                reps.push((c, rng.below(shards as u64) as u16));
            }
            tablets.push(Tablet { first_excl: lo, last: b, replicas: reps });
            lo = b;
        }
    }
    World { nodes, up, strategy, prefer_dc, prefer_rack, failover: sparse || rng.bool(), pool: (rng.chance(2, 3), rng.usize(1, 2)), tablets, seed }
}

/// Polls the session's published cluster state until it answers for `token` of a tablet table.
async fn tablet_known(session: &scylla::client::session::Session, ks: &str, table: &str, token: i64, deadline: std::time::Instant) -> bool {
    loop {
        if !session.get_cluster_state().get_token_endpoints(ks, table, scylla::routing::Token::new(token)).is_empty() {
            return true;
        }
        if std::time::Instant::now() > deadline {
            return false;
        }
        tokio::time::sleep(Duration::from_millis(5)).await;
    }
}

struct WorldOut {
    build_error: Option<String>,
    /// per op: (query, token, first frame (node, shard), call_seq)
    ops: Vec<(u64, &'static str, i64, Option<(usize, Option<u16>)>, u64, bool)>, // last: phase2
    /// shards for which each node had an established pool connection
    conn_shards: Vec<Vec<Option<u16>>>,
    announced: Vec<usize>,
    violations: Vec<String>,
    pools_complete: bool,
    refreshed_between_phases: bool,
    /// a node restarted between the phases announcing the same shard count with another `msb_ignore`
    /// (node, new msb_ignore); `None` also when its pool did not come back complete in time
    resharded: Option<(usize, u8)>,
}

async fn run_world(w: &World) -> WorldOut {
    let handler = Arc::new(H12 { tablets: w.tablets.clone(), host_ids: Mutex::new(vec![]), frames: Mutex::new(HashMap::new()), announced: Mutex::new(vec![]) });
    let mut ks = match &w.strategy {
        Strat::Simple(rf) => KeyspaceDef::simple("ks", *rf),
        Strat::Nts(m) => KeyspaceDef::nts("ks", &m.iter().map(|(k, v)| (k.as_str(), *v)).collect::<Vec<_>>()),
    };
    ks = ks.with_table(TableDef::new("t1", &[("pk", "bigint")], &[("v", "bigint")])).with_table(TableDef::new("t2", &[("a", "bigint"), ("b", "text")], &[("v", "bigint")]));
    let mut tks = KeyspaceDef::simple("tks", 1).with_table(TableDef::new("tt", &[("pk", "bigint")], &[("v", "bigint")]));
    // ScyllaDB reports initial_tablets = 0 for `tablets = {'enabled': true}` keyspaces: tablet-based all the same
    tks.initial_tablets = Some(if w.seed % 3 == 0 { 0 } else { 4 });
    // sibling keyspaces that nobody queries: the same datacenters with other replication factors (the driver
    // pre-computes replica sets per (datacenter, factor); one keyspace's placement must not depend on another's)
    let dc_names: std::collections::BTreeSet<String> = w.nodes.iter().filter_map(|n| n.dc.clone()).collect();
    let mut keyspaces = vec![ks, tks];
    for (i, bump) in [1usize, 2].into_iter().enumerate() {
        let rfs: Vec<(String, usize)> = dc_names
            .iter()
            .map(|d| {
                let base = match &w.strategy {
                    Strat::Nts(m) => m.get(d).copied().unwrap_or(0),
                    Strat::Simple(rf) => *rf,
                };
                (d.clone(), (base + bump).min(6))
            })
            .collect();
        keyspaces.push(KeyspaceDef::nts(&format!("sib{i}"), &rfs.iter().map(|(k, v)| (k.as_str(), *v)).collect::<Vec<_>>()).with_table(TableDef::new("t", &[("pk", "bigint")], &[("v", "bigint")])));
    }
    let spec = ClusterSpec { nodes: w.nodes.clone(), keyspaces, cluster_name: "c12".into() };
    let cluster = MockCluster::start(spec, handler.clone()).await;
    *handler.host_ids.lock().unwrap() = cluster.nodes().iter().map(|n| n.host_id).collect();
    let mut out = WorldOut { build_error: None, ops: vec![], conn_shards: vec![], announced: vec![], violations: vec![], pools_complete: false, refreshed_between_phases: false, resharded: None };
    for (i, u) in w.up.iter().enumerate() {
        if !*u {
            cluster.stop_node(i, CloseHow::Rst);
        }
    }
    let mut pb = DefaultPolicy::builder().token_aware(true).permit_dc_failover(w.failover);
    pb = match (&w.prefer_dc, &w.prefer_rack) {
        (Some(dc), Some(r)) => pb.prefer_datacenter_and_rack(dc.clone(), r.clone()),
        (Some(dc), None) => pb.prefer_datacenter(dc.clone()),
        _ => pb,
    };
    let profile = ExecutionProfile::builder().load_balancing_policy(pb.build()).request_timeout(Some(Duration::from_secs(20))).build();
    let pool = if w.pool.0 { PoolSize::PerShard(NonZeroUsize::new(w.pool.1).unwrap()) } else { PoolSize::PerHost(NonZeroUsize::new(w.pool.1 * 2).unwrap()) };
    let session = match connect(&cluster, |b| b.default_execution_profile_handle(profile.into_handle()).pool_size(pool)).await {
        Ok(s) => Arc::new(s),
        Err(e) => {
            out.build_error = Some(e);
            cluster.shutdown();
            return out;
        }
    };
    // wait (event driven, on the mock's accept log) until the pools are full, then until the log is quiet
    let want = |i: usize| -> usize {
        let sh = w.nodes[i].sharding.map(|s| s.nr_shards as usize).unwrap_or(1);
        if w.pool.0 { sh * w.pool.1 } else { w.pool.1 * 2 }
    };
    {
        let c = cluster.clone();
        let up = w.up.clone();
        let per_shard = w.pool.0;
        let nodes = w.nodes.clone();
        out.pools_complete = cluster
            .wait_until(Duration::from_secs(15), move || {
                (0..up.len()).filter(|i| up[*i]).all(|i| {
                    let conns: Vec<_> = c.established(i).into_iter().filter(|x| !x.registered.load(Ordering::SeqCst)).collect();
                    if conns.len() < want(i) {
                        return false;
                    }
                    // per-shard pools: every shard must have its connection(s)
                    if per_shard {
                        if let Some(s) = nodes[i].sharding {
                            return (0..s.nr_shards).all(|sh| conns.iter().any(|x| x.shard == Some(sh)));
                        }
                    }
                    true
                })
            })
            .await;
    }
    settle(cluster.log(), Duration::from_millis(120), Duration::from_secs(5), || false).await;
    let mut prepared = HashMap::new();
    for q in [INS1, INS2, INST] {
        match session.prepare(q).await {
            Ok(p) => {
                prepared.insert(q, p);
            }
            Err(e) => {
                out.build_error = Some(format!("prepare {q}: {e}"));
                cluster.shutdown();
                return out;
            }
        }
    }
    let log = cluster.log().clone();
    let mut rng = Rng::new(w.seed, 3);
    let has_tablets = !w.tablets.is_empty();
    for phase2 in [false, true] {
        let n_ops = if phase2 { 60 } else { 50 };
        for _ in 0..n_ops {
            let op = next_op();
            let kind = rng.below(if has_tablets { 3 } else { 2 });
            let (q, res, token) = match kind {
                0 => {
                    let pk = rng.i64_boundary();
                    let token = murmur3::murmur3_token(&pk.to_be_bytes());
                    let call_seq = log.push(Ev::ClientCall { op, api: "execute", detail: String::new() });
                    let r = session.execute_unpaged(&prepared[INS1], (pk, op as i64)).await;
                    log.push(Ev::ClientReturn { op, ok: r.is_ok(), detail: String::new() });
                    (INS1, call_seq, token)
                }
                1 => {
                    let a = rng.i64_boundary();
                    let b: String = (0..rng.usize(0, 20)).map(|_| *rng.pick(&['a', 'Z', '0', 'é', '_'])).collect();
                    let comp = murmur3::composite(&[&a.to_be_bytes(), b.as_bytes()]).unwrap();
                    let token = murmur3::murmur3_token(&comp);
                    let call_seq = log.push(Ev::ClientCall { op, api: "execute", detail: String::new() });
                    let r = session.execute_unpaged(&prepared[INS2], (op as i64, b, a)).await;
                    log.push(Ev::ClientReturn { op, ok: r.is_ok(), detail: String::new() });
                    (INS2, call_seq, token)
                }
                _ => {
                    let pk = rng.i64_boundary();
                    let token = murmur3::murmur3_token(&pk.to_be_bytes());
                    let call_seq = log.push(Ev::ClientCall { op, api: "execute", detail: String::new() });
                    let r = session.execute_unpaged(&prepared[INST], (pk, op as i64)).await;
                    log.push(Ev::ClientReturn { op, ok: r.is_ok(), detail: String::new() });
                    (INST, call_seq, token)
                }
            };
            let first = handler.frames.lock().unwrap().get(&op).and_then(|v| v.iter().min_by_key(|f| f.2).map(|f| (f.0, f.1)));
            out.ops.push((op, q, token, first, res, phase2));
        }
        if !phase2 {
            // tablet feedback travels through an internal channel to the cluster worker: wait until the
            // session's published cluster state answers for a token inside each announced tablet
            let mut ann: Vec<usize> = handler.announced.lock().unwrap().iter().map(|(t, _)| *t).collect();
            ann.sort();
            ann.dedup();
            // (pacing only: a tablet the nodes announced that is still unknown 3 s later is asserted all the same -
            // a driver that drops a valid announcement does not thereby escape the property)
            let deadline = std::time::Instant::now() + Duration::from_secs(3);
            for ti in ann {
                tablet_known(&session, "tks", "tt", w.tablets[ti].last, deadline).await;
                out.announced.push(ti);
            }
            // in a quarter of the worlds a sharded node restarts now with the same number of shards and another
            // msb_ignore: the tokens move to other shards, requests of phase 2 must follow
            // (per-shard pools only: there "the pool is complete again" is something the mock can see - one
            // connection per shard; a per-host pool keeps replacing connections for a while after a restart)
            if w.seed % 4 == 2 && w.pool.0 {
                if let Some(i) = (0..w.nodes.len()).find(|i| w.up[*i] && w.nodes[*i].sharding.map(|s| s.nr_shards > 1).unwrap_or(false)) {
                    let old = w.nodes[i].sharding.unwrap();
                    let new_msb = if old.msb_ignore == 0 { 12 } else { 0 };
                    cluster.stop_node(i, CloseHow::Rst);
                    cluster.nodes()[i].set_sharding(Some(ShardSpec { msb_ignore: new_msb, ..old }));
                    tokio::time::sleep(Duration::from_millis(100)).await;
                    cluster.start_node(i).await;
                    let (c, per_shard, wanted) = (cluster.clone(), w.pool.0, want(i));
                    let complete = cluster
                        .wait_until(Duration::from_secs(15), move || {
                            let conns: Vec<_> = c.established(i).into_iter().filter(|x| !x.registered.load(Ordering::SeqCst)).collect();
                            conns.len() >= wanted && (!per_shard || (0..old.nr_shards).all(|sh| conns.iter().any(|x| x.shard == Some(sh))))
                        })
                        .await;
                    settle(cluster.log(), Duration::from_millis(150), Duration::from_secs(5), || false).await;
                    if complete {
                        out.resharded = Some((i, new_msb));
                    }
                }
            }
            // in half of the worlds the metadata is refreshed now: what was learnt about tablets must survive it
            if w.seed % 2 == 1 {
                let _ = tokio::time::timeout(Duration::from_secs(20), session.refresh_metadata()).await;
                out.refreshed_between_phases = true;
            }
        }
    }
    for i in 0..w.nodes.len() {
        out.conn_shards.push(cluster.established(i).into_iter().filter(|x| !x.registered.load(Ordering::SeqCst)).map(|x| x.shard).collect());
    }
    out.violations = cluster.log().violations();
    drop(session);
    cluster.shutdown();
    out
}

fn judge(o: &mut Outcome, w: &World, r: &WorldOut) {
    let replay = json!({"world": {"nodes": w.nodes.iter().map(|n| json!({"dc": n.dc, "rack": n.rack, "tokens": n.tokens, "shards": n.sharding.map(|s| s.nr_shards), "msb": n.sharding.map(|s| s.msb_ignore)})).collect::<Vec<_>>(),
        "up": w.up, "strategy": format!("{:?}", w.strategy), "prefer_dc": w.prefer_dc, "prefer_rack": w.prefer_rack, "failover": w.failover, "pool": format!("{:?}", w.pool), "seed": w.seed}});
    if let Some(e) = &r.build_error {
        o.inconclusive(format!("world could not start: {e}"));
        return;
    }
    if !r.pools_complete {
        o.inconclusive("pools did not fill within 15 s; world skipped");
        return;
    }
    for v in &r.violations {
        o.node_violation("c12", &v, replay.clone());
    }
    let mnodes: Vec<replication::MNode> = w.nodes.iter().map(|n| replication::MNode { dc: n.dc.clone(), rack: n.rack.clone(), tokens: n.tokens.clone() }).collect();
    o.class(&format!("nodes:{}", w.nodes.len()));
    o.class(match &w.strategy {
        Strat::Simple(_) => "strategy:simple",
        Strat::Nts(_) => "strategy:nts",
    });
    o.class(if w.prefer_dc.is_some() { "preference:dc" } else { "preference:none" });
    if w.up.iter().any(|u| !u) {
        o.class("some-nodes-down");
    }
    for (op, q, token, first, _call, phase2) in &r.ops {
        let Some((node, shard)) = first else { continue };
        o.case(fw::hash64(format!("{}:{op}", w.seed).as_bytes()), true);
        let tablet_table = *q == INST;
        let (replicas, tablet): (Vec<usize>, Option<&Tablet>) = if tablet_table {
            match w.tablets.iter().enumerate().find(|(_, t)| *token > t.first_excl && *token <= t.last) {
                Some((ti, t)) if *phase2 && r.announced.contains(&ti) => (t.replicas.iter().map(|x| x.0).collect(), Some(t)),
                _ => {
                    o.class("tablet:not-yet-known(not-asserted)");
                    continue;
                }
            }
        } else {
            (
                match &w.strategy {
                    Strat::Simple(rf) => replication::simple(&mnodes, *token, *rf),
                    Strat::Nts(m) => replication::nts(&mnodes, *token, m),
                },
                None,
            )
        };
        // nodes the configuration permits for a first attempt
        let permitted = |i: usize| -> bool {
            if !w.up[i] {
                return false;
            }
            match (&w.prefer_dc, w.failover) {
                (Some(dc), false) => w.nodes[i].dc.as_deref() == Some(dc.as_str()),
                _ => true,
            }
        };
        let candidates: Vec<usize> = replicas.iter().copied().filter(|i| permitted(*i)).collect();
        if candidates.is_empty() {
            o.class("no-reachable-permitted-replica(not-asserted)");
            continue;
        }
        let in_pref: Vec<usize> = match &w.prefer_dc {
            Some(dc) => candidates.iter().copied().filter(|i| w.nodes[*i].dc.as_deref() == Some(dc.as_str())).collect(),
            None => vec![],
        };
        let expect: &Vec<usize> = if !in_pref.is_empty() { &in_pref } else { &candidates };
        let what = if tablet_table { "tablet" } else { "vnode" };
        if !expect.contains(node) {
            o.violation(
                format!("c12:{what}:first-attempt-not-at-an-owning-replica"),
                format!("{q} with token {token}: first attempt went to node {node}; reachable permitted replicas are {candidates:?}{}", if !in_pref.is_empty() { format!(" (in the preferred datacenter: {in_pref:?})") } else { String::new() }),
                json!({"replay": replay, "op": op, "token": token, "query": q}),
            );
            continue;
        }
        o.class(&format!("{what}:first-attempt-at-replica"));
        if tablet_table && r.refreshed_between_phases {
            o.class("tablet:followed-after-a-metadata-refresh");
        }
        if !in_pref.is_empty() {
            o.class("first-attempt-in-preferred-dc");
        }
        // shard
        if let Some(sp) = w.nodes[*node].sharding {
            let owner: u16 = match tablet {
                Some(t) => t.replicas.iter().find(|x| x.0 == *node).map(|x| x.1).unwrap_or(0),
                None => {
                    let msb = match r.resharded {
                        Some((n, m)) if n == *node && *phase2 => m,
                        _ => sp.msb_ignore,
                    };
                    sharding::shard_of(*token, sp.nr_shards, msb) as u16
                }
            };
            let pool_has = r.conn_shards[*node].iter().any(|s| *s == Some(owner));
            if pool_has {
                if *shard != Some(owner) {
                    o.violation(
                        format!("c12:{what}:wrong-shard"),
                        format!("{q} with token {token}: node {node} owns it on shard {owner} (of {}), the request arrived on a connection bound to shard {shard:?} although the pool has one for shard {owner}", sp.nr_shards),
                        json!({"replay": replay, "op": op, "token": token, "query": q}),
                    );
                } else {
                    o.class(&format!("{what}:owning-shard"));
                    if *phase2 && matches!(r.resharded, Some((n, _)) if n == *node) && tablet.is_none() {
                        o.class("owning-shard-after-restart-with-other-msb_ignore");
                    }
                }
            } else {
                o.class("pool-has-no-connection-to-owning-shard(not-asserted)");
            }
        } else {
            o.class("unsharded-node");
        }
    }
    if o.want_sample() {
        o.sample(json!({"world": replay["world"], "ops": r.ops.len(), "tablets_announced": r.announced.len()}));
    }
    o.note_add("worlds", 1);
}

// ---------------------------------------------------------------------------
// Late joiner: tablets that name a replica the driver does not know yet
// ---------------------------------------------------------------------------
//
// Nodes A (dc0) and B (dc1) are members; L (dc0) listens but is not in system.peers yet.
// Table tks.tt's tablets list [L, B], table tks.tu's tablet lists [A]. The nodes announce the
// tablets on misrouted requests (tt and tu in either order), then L becomes a member and the
// metadata is refreshed. From then on L is a known, reachable replica in the preferred
// datacenter: the first attempt of every tt request must go to L, on the tablet's shard.

const INSU: &str = "INSERT INTO tks.tu (pk, v) VALUES (?, ?)";

struct HLate {
    /// (first_excl, last, replicas as (node idx, shard)) per table: 0 = tt, 1 = tu
    tablets: Mutex<[Vec<Tablet>; 2]>,
    host_ids: Mutex<Vec<uuid::Uuid>>,
    frames: Mutex<HashMap<u64, Vec<(usize, Option<u16>, u64)>>>,
    announced: Mutex<Vec<(usize, usize)>>, // (table, tablet index)
}

impl Handler for HLate {
    fn statement(&self, _node: &MockNode, query: &str) -> Option<StatementDef> {
        let table = if query == INST {
            "tt"
        } else if query == INSU {
            "tu"
        } else {
            return None;
        };
        let mut d = StatementDef::new(query, &fw::hash_str(query).to_be_bytes());
        d.bind = vec![ColSpec::new("tks", table, "pk", ColType::BigInt), ColSpec::new("tks", table, "v", ColType::BigInt)];
        d.pk_indexes = vec![0];
        Some(d)
    }
    fn on_request(&self, rq: Rq) {
        let Request::Execute { params, .. } = &*rq.request else {
            rq.void();
            return;
        };
        let q = rq.statement.as_ref().map(|s| s.query.clone()).unwrap_or_default();
        let Some((op, token)) = params.values.as_ref().and_then(|v| token_of_values(if q == INSU { INST } else { &q }, v)) else {
            rq.void();
            return;
        };
        self.frames.lock().unwrap().entry(op).or_default().push((rq.node.idx, rq.conn.shard, rq.seq));
        let ti = if q == INSU { 1 } else { 0 };
        let tablets = self.tablets.lock().unwrap();
        if let Some((k, t)) = tablets[ti].iter().enumerate().find(|(_, t)| token > t.first_excl && token <= t.last) {
            let right = t.replicas.iter().any(|(n, s)| *n == rq.node.idx && (rq.conn.shard.is_none() || rq.conn.shard == Some(*s)));
            if !right {
                let ids = self.host_ids.lock().unwrap();
                let reps: Vec<(uuid::Uuid, i32)> = t.replicas.iter().map(|(n, s)| (ids[*n], *s as i32)).collect();
                let mut payload = BTreeMap::new();
                payload.insert("tablets-routing-v1".to_string(), enc::tablet_payload(t.first_excl, t.last, &reps));
                let env = Envelope { custom_payload: Some(payload), ..Default::default() };
                self.announced.lock().unwrap().push((ti, k));
                rq.reply_env(&env, &Response::Result(ResultBody::Void));
                return;
            }
        }
        rq.void();
    }
}

struct LateOut {
    error: Option<String>,
    tu_first: bool,
    failover: bool,
    shards: [u16; 3],
    tablets_tt: Vec<Tablet>,
    /// phase-2 requests: (op, token, first frame)
    ops: Vec<(u64, i64, Option<(usize, Option<u16>)>)>,
    announced_tt: Vec<usize>,
    tu_announced: bool,
    l_conn_shards: Vec<Option<u16>>,
    violations: Vec<String>,
}

async fn run_late_joiner(seed: u64) -> LateOut {
    let mut rng = Rng::new(seed, 77);
    let shards = [rng.usize(1, 4) as u16, rng.usize(1, 4) as u16, rng.usize(1, 4) as u16];
    let sharded = |dc: &str, n: u16, tok: i64| NodeSpec {
        dc: Some(dc.into()),
        rack: Some("r1".into()),
        tokens: vec![tok],
        sharding: Some(ShardSpec { nr_shards: n, msb_ignore: 12, shard_aware_port: true }),
        features: Features { tablets: true, ..Default::default() },
    };
    let tu_first = rng.bool();
    let failover = rng.chance(2, 3);
    let mut out = LateOut { error: None, tu_first, failover, shards, tablets_tt: vec![], ops: vec![], announced_tt: vec![], tu_announced: false, l_conn_shards: vec![], violations: vec![] };
    let handler = Arc::new(HLate { tablets: Mutex::new([vec![], vec![]]), host_ids: Mutex::new(vec![]), frames: Mutex::new(HashMap::new()), announced: Mutex::new(vec![]) });
    let mut tks = KeyspaceDef::simple("tks", 1).with_table(TableDef::new("tt", &[("pk", "bigint")], &[("v", "bigint")])).with_table(TableDef::new("tu", &[("pk", "bigint")], &[("v", "bigint")]));
    tks.initial_tablets = Some(if seed % 2 == 0 { 0 } else { 4 });
    let spec = ClusterSpec { nodes: vec![sharded("dc0", shards[0], -3_000_000_000_000_000_000), sharded("dc1", shards[1], 3_000_000_000_000_000_000)], keyspaces: vec![tks], cluster_name: "c12-late".into() };
    let cluster = MockCluster::start(spec, handler.clone()).await;
    let late = cluster.add_node(sharded("dc0", shards[2], 0), false).await;
    *handler.host_ids.lock().unwrap() = cluster.nodes().iter().map(|n| n.host_id).collect();
    // tt: two tablets, replicas [L, B]; tu: one tablet, replicas [A]
    let split = rng.u64() as i64 / 2;
    let tt = vec![
        Tablet { first_excl: i64::MIN, last: split, replicas: vec![(late.idx, rng.below(shards[2] as u64) as u16), (1, rng.below(shards[1] as u64) as u16)] },
        Tablet { first_excl: split, last: i64::MAX, replicas: vec![(1, rng.below(shards[1] as u64) as u16), (late.idx, rng.below(shards[2] as u64) as u16)] },
    ];
    let tu = vec![Tablet { first_excl: i64::MIN, last: i64::MAX, replicas: vec![(0, rng.below(shards[0] as u64) as u16)] }];
    out.tablets_tt = tt.clone();
    *handler.tablets.lock().unwrap() = [tt, tu];
    let mut pb = DefaultPolicy::builder().token_aware(true).permit_dc_failover(failover);
    pb = pb.prefer_datacenter("dc0".to_string());
    let profile = ExecutionProfile::builder().load_balancing_policy(pb.build()).request_timeout(Some(Duration::from_secs(20))).build();
    let session = match connect(&cluster, |b| b.default_execution_profile_handle(profile.into_handle()).pool_size(PoolSize::PerShard(NonZeroUsize::new(1).unwrap()))).await {
        Ok(s) => s,
        Err(e) => {
            out.error = Some(e);
            cluster.shutdown();
            return out;
        }
    };
    let full = |cluster: &MockCluster, idx: usize, n: u16| {
        let conns: Vec<_> = cluster.established(idx).into_iter().filter(|x| !x.registered.load(Ordering::SeqCst)).collect();
        (0..n).all(|sh| conns.iter().any(|x| x.shard == Some(sh)))
    };
    {
        let c = cluster.clone();
        if !cluster.wait_until(Duration::from_secs(15), move || full(&c, 0, shards[0]) && full(&c, 1, shards[1])).await {
            out.error = Some("pools did not fill".into());
            cluster.shutdown();
            return out;
        }
    }
    settle(cluster.log(), Duration::from_millis(120), Duration::from_secs(5), || false).await;
    let (pt, pu) = match (session.prepare(INST).await, session.prepare(INSU).await) {
        (Ok(a), Ok(b)) => (a, b),
        (a, b) => {
            out.error = Some(format!("prepare: {:?} {:?}", a.err(), b.err()));
            cluster.shutdown();
            return out;
        }
    };
    // phase 1: let the nodes announce the tablets (tt: both tablets; tu: its one tablet), tt and tu in either order
    let announce = |table: usize| {
        let (session, handler, pt, pu) = (&session, &handler, &pt, &pu);
        let mut r = Rng::new(seed, 100 + table as u64);
        async move {
            for _ in 0..200 {
                let want = if table == 0 { 2 } else { 1 };
                let have: std::collections::BTreeSet<usize> = handler.announced.lock().unwrap().iter().filter(|(t, _)| *t == table).map(|(_, k)| *k).collect();
                if have.len() >= want {
                    break;
                }
                let op = next_op();
                let _ = session.execute_unpaged(if table == 0 { pt } else { pu }, (r.u64() as i64, op as i64)).await;
            }
        }
    };
    if tu_first {
        announce(1).await;
        announce(0).await;
    } else {
        announce(0).await;
        announce(1).await;
    }
    // known = the published cluster state answers for a token of the tablet (with the replicas it knows so far)
    let deadline = std::time::Instant::now() + Duration::from_secs(5);
    let ann: std::collections::BTreeSet<(usize, usize)> = handler.announced.lock().unwrap().iter().copied().collect();
    for (table, k) in ann {
        // pacing only, as in the main worlds
        if table == 0 {
            tablet_known(&session, "tks", "tt", out.tablets_tt[k].last, deadline).await;
            out.announced_tt.push(k);
        } else {
            tablet_known(&session, "tks", "tu", 0, deadline).await;
            out.tu_announced = true;
        }
    }
    // the late node joins
    cluster.set_members(vec![0, 1, late.idx]);
    if let Err(e) = session.refresh_metadata().await {
        out.error = Some(format!("refresh_metadata: {e}"));
        cluster.shutdown();
        return out;
    }
    {
        let c = cluster.clone();
        let li = late.idx;
        if !cluster.wait_until(Duration::from_secs(15), move || full(&c, li, shards[2])).await {
            out.error = Some("the pool of the late node did not fill".into());
            cluster.shutdown();
            return out;
        }
    }
    settle(cluster.log(), Duration::from_millis(120), Duration::from_secs(5), || false).await;
    // one more refresh, as the periodic one would do: whatever was not resolved by the first is given its chance
    let _ = session.refresh_metadata().await;
    for _ in 0..30 {
        let op = next_op();
        let pk = rng.u64() as i64;
        let token = murmur3::murmur3_token(&pk.to_be_bytes());
        let _ = session.execute_unpaged(&pt, (pk, op as i64)).await;
        let first = handler.frames.lock().unwrap().get(&op).and_then(|v| v.iter().min_by_key(|f| f.2).map(|f| (f.0, f.1)));
        out.ops.push((op, token, first));
    }
    out.l_conn_shards = cluster.established(late.idx).into_iter().filter(|x| !x.registered.load(Ordering::SeqCst)).map(|x| x.shard).collect();
    out.violations = cluster.log().violations();
    drop(session);
    cluster.shutdown();
    out
}

fn judge_late(o: &mut Outcome, seed: u64, r: &LateOut) {
    if let Some(e) = &r.error {
        o.inconclusive(format!("late-joiner world could not run: {e}"));
        return;
    }
    for v in &r.violations {
        o.node_violation("c12", &v, json!({"late_joiner_seed": seed}));
    }
    let replay = json!({"late_joiner_seed": seed, "tu_announced_first": r.tu_first, "failover": r.failover, "shards": r.shards, "tablets_tt": format!("{:?}", r.tablets_tt)});
    for (op, token, first) in &r.ops {
        let Some((node, shard)) = first else { continue };
        let Some((ti, t)) = r.tablets_tt.iter().enumerate().find(|(_, t)| *token > t.first_excl && *token <= t.last) else { continue };
        if !r.announced_tt.contains(&ti) || !r.tu_announced {
            o.class("tablet:not-yet-known(not-asserted)");
            continue;
        }
        o.case(fw::hash64(format!("late:{seed}:{op}").as_bytes()), true);
        // L (node 2) is a replica of every tt tablet, is in the preferred datacenter dc0 and is up
        if *node != 2 {
            o.violation(
                "c12:tablet:first-attempt-not-at-an-owning-replica",
                format!("tks.tt token {token}: the tablet's replicas are {:?}; node 2 joined the cluster (refresh answered, pool full) and is the replica in the preferred datacenter, but the first attempt went to node {node}", t.replicas),
                json!({"replay": replay, "op": op, "token": token}),
            );
            continue;
        }
        o.class("tablet:late-joining-replica-used");
        let owner = t.replicas.iter().find(|x| x.0 == 2).map(|x| x.1).unwrap_or(0);
        if r.l_conn_shards.iter().any(|s| *s == Some(owner)) {
            if *shard != Some(owner) {
                o.violation("c12:tablet:wrong-shard", format!("tks.tt token {token}: node 2 owns it on shard {owner}, the request arrived on a connection bound to shard {shard:?}"), json!({"replay": replay, "op": op, "token": token}));
            } else {
                o.class("tablet:owning-shard");
            }
        }
    }
    o.class(if r.tu_first { "late-joiner:other-table-announced-first" } else { "late-joiner:other-table-announced-in-between" });
}

pub fn run(ctx: &Ctx) -> Outcome {
    let mut out = Outcome::new();
    if let Err(e) = murmur3::self_test() {
        out.inconclusive(format!("murmur3 model self-test failed: {e}"));
        return out;
    }
    let rt = runtime(ctx.workers.min(8));
    let mut rng = ctx.rng(1212);
    let n = ctx.vol(240, 6000);
    let worlds: Vec<World> = (0..n).map(|i| gen_world(&mut rng, ctx.seed.wrapping_mul(31337).wrapping_add(i))).collect();
    for chunk in worlds.chunks(6) {
        let res: Vec<(World, WorldOut)> = rt.block_on(async {
            let mut js = Vec::new();
            for w in chunk.iter().cloned() {
                js.push(tokio::spawn(async move {
                    let r = run_world(&w).await;
                    (w, r)
                }));
            }
            let mut v = Vec::new();
            for j in js {
                if let Ok(x) = j.await {
                    v.push(x);
                }
            }
            v
        });
        for (w, r) in &res {
            judge(&mut out, w, r);
        }
        if fw::stop_early(&mut out) {
            break;
        }
    }
    // late-joiner worlds
    if out.violations.is_empty() {
        let n_late = ctx.vol(12, 300);
        let seeds: Vec<u64> = (0..n_late).map(|i| ctx.seed.wrapping_mul(7919).wrapping_add(i)).collect();
        for chunk in seeds.chunks(4) {
            let res: Vec<(u64, LateOut)> = rt.block_on(async {
                let mut js = Vec::new();
                for s in chunk.iter().copied() {
                    js.push(tokio::spawn(async move { (s, run_late_joiner(s).await) }));
                }
                let mut v = Vec::new();
                for j in js {
                    if let Ok(x) = j.await {
                        v.push(x);
                    }
                }
                v
            });
            for (s, r) in &res {
                judge_late(&mut out, *s, r);
            }
            if fw::stop_early(&mut out) {
                break;
            }
        }
        for c in ["tablet:late-joining-replica-used", "late-joiner:other-table-announced-first", "late-joiner:other-table-announced-in-between"] {
            out.require_class(c);
        }
    }
    for c in ["strategy:simple", "strategy:nts", "preference:dc", "preference:none", "some-nodes-down", "vnode:first-attempt-at-replica", "vnode:owning-shard", "tablet:first-attempt-at-replica", "tablet:followed-after-a-metadata-refresh", "tablet:owning-shard", "first-attempt-in-preferred-dc", "unsharded-node", "owning-shard-after-restart-with-other-msb_ignore"] {
        out.require_class(c);
    }
    out
}
