//! The fixed family of derived structs for C16 and the glue that lets the monitor drive each of
//! them monomorphically (build from model values, serialize, type_check + deserialize, extract).
//!
//! One `fam!` invocation = one module with a struct `S` carrying the REAL derive macros and
//! `#[scylla(..)]` attributes. The model-side description (`StructDesc`) is produced from the very
//! same attribute tokens by `sflags!` / `fflags!`, so struct and description cannot drift apart.

use crate::refmodel::derive::{CqlT, FieldDesc, FieldKind, Flavor, MV, Scalar, StructDesc};
use bytes::Bytes;
use scylla::_macro_internal::{ColumnIterator, ColumnSpec, ColumnType};
use scylla::deserialize::FrameSlice;
use scylla::deserialize::row::DeserializeRow;
use scylla::deserialize::value::DeserializeValue;
use scylla::serialize::row::{RowSerializationContext, SerializeRow};
use scylla::serialize::value::SerializeValue;
use scylla::serialize::writers::{CellWriter, RowWriter};

/// Conversion between model values and the Rust carrier of a field (leaf or flattened struct).
pub trait FieldConv<'a>: Sized {
    /// number of leaves
    fn n() -> usize;
    fn from_mvs(v: &'a [MV]) -> Self;
    fn push_mvs(&self, out: &mut Vec<MV>);
    fn kind() -> FieldKind;
}

trait Base<'a>: Sized {
    const TY: CqlT;
    fn from_s(s: &'a Scalar) -> Self;
    fn to_s(&self) -> Scalar;
}

macro_rules! base {
    ($t:ty, $ty:ident, $pat:pat => $from:expr, $slf:ident => $to:expr) => {
        impl<'a> Base<'a> for $t {
            const TY: CqlT = CqlT::$ty;
            fn from_s(s: &'a Scalar) -> Self {
                match s {
                    $pat => $from,
                    other => panic!("harness bug: model value {:?} for carrier {}", other, stringify!($t)),
                }
            }
            fn to_s(&self) -> Scalar {
                let $slf = self;
                $to
            }
        }
        impl<'a> FieldConv<'a> for $t {
            fn n() -> usize {
                1
            }
            fn from_mvs(v: &'a [MV]) -> Self {
                match &v[0] {
                    Some(s) => <$t as Base<'a>>::from_s(s),
                    None => panic!("harness bug: null model value for non-optional carrier {}", stringify!($t)),
                }
            }
            fn push_mvs(&self, out: &mut Vec<MV>) {
                out.push(Some(<$t as Base<'a>>::to_s(self)));
            }
            fn kind() -> FieldKind {
                FieldKind::Leaf { ty: <$t as Base<'a>>::TY, optional: false }
            }
        }
        impl<'a> FieldConv<'a> for Option<$t> {
            fn n() -> usize {
                1
            }
            fn from_mvs(v: &'a [MV]) -> Self {
                v[0].as_ref().map(|s| <$t as Base<'a>>::from_s(s))
            }
            fn push_mvs(&self, out: &mut Vec<MV>) {
                out.push(self.as_ref().map(|x| <$t as Base<'a>>::to_s(x)));
            }
            fn kind() -> FieldKind {
                FieldKind::Leaf { ty: <$t as Base<'a>>::TY, optional: true }
            }
        }
    };
}

base!(i32, Int, Scalar::Int(x) => *x, s => Scalar::Int(*s));
base!(i64, BigInt, Scalar::BigInt(x) => *x, s => Scalar::BigInt(*s));
base!(bool, Boolean, Scalar::Boolean(x) => *x, s => Scalar::Boolean(*s));
base!(f64, Double, Scalar::Double(x) => f64::from_bits(*x), s => Scalar::Double(s.to_bits()));
base!(String, Text, Scalar::Text(x) => x.clone(), s => Scalar::Text(s.clone()));
base!(Vec<u8>, Blob, Scalar::Blob(x) => x.clone(), s => Scalar::Blob(s.clone()));
base!(&'a str, Text, Scalar::Text(x) => x.as_str(), s => Scalar::Text((*s).to_owned()));
base!(&'a [u8], Blob, Scalar::Blob(x) => x.as_slice(), s => Scalar::Blob(s.to_vec()));

pub enum DeOut {
    TypeCheck(String),
    Deser(String),
    Ok(Vec<MV>),
}

pub type SerUdtFn = for<'a> fn(&'a [MV], &ColumnType<'_>) -> Result<Vec<u8>, String>;
pub type DeUdtFn = for<'a> fn(&'a ColumnType<'a>, &'a Bytes) -> DeOut;
pub type SerRowFn = for<'a> fn(&'a [MV], &[ColumnSpec<'_>]) -> Result<(Vec<u8>, usize), String>;
pub type DeRowFn = for<'a> fn(&'a [ColumnSpec<'a>], &'a Bytes) -> DeOut;

pub struct Entry {
    pub name: &'static str,
    pub desc: StructDesc,
    pub ser_udt: Option<SerUdtFn>,
    pub de_udt: Option<DeUdtFn>,
    pub ser_row: Option<SerRowFn>,
    pub de_row: Option<DeRowFn>,
}

pub fn ser_udt_impl<T: SerializeValue>(v: &T, typ: &ColumnType<'_>) -> Result<Vec<u8>, String> {
    let mut buf = Vec::new();
    let w = CellWriter::new(&mut buf);
    match v.serialize(typ, w) {
        Ok(_) => Ok(buf),
        Err(e) => Err(e.to_string()),
    }
}

pub fn ser_row_impl<T: SerializeRow>(v: &T, specs: &[ColumnSpec<'_>]) -> Result<(Vec<u8>, usize), String> {
    let mut buf = Vec::new();
    let n;
    {
        let ctx = RowSerializationContext::from_specs(specs);
        let mut w = RowWriter::new(&mut buf);
        v.serialize(&ctx, &mut w).map_err(|e| e.to_string())?;
        n = w.value_count();
    }
    Ok((buf, n))
}

pub fn de_udt_impl<'a, T: DeserializeValue<'a, 'a> + FieldConv<'a>>(typ: &'a ColumnType<'a>, b: &'a Bytes) -> DeOut {
    if let Err(e) = T::type_check(typ) {
        return DeOut::TypeCheck(e.to_string());
    }
    match T::deserialize(typ, Some(FrameSlice::new(b))) {
        Err(e) => DeOut::Deser(e.to_string()),
        Ok(v) => {
            let mut out = Vec::new();
            v.push_mvs(&mut out);
            DeOut::Ok(out)
        }
    }
}

pub fn de_row_impl<'a, T: DeserializeRow<'a, 'a> + FieldConv<'a>>(specs: &'a [ColumnSpec<'a>], b: &'a Bytes) -> DeOut {
    if let Err(e) = T::type_check(specs) {
        return DeOut::TypeCheck(e.to_string());
    }
    match T::deserialize(ColumnIterator::new(specs, FrameSlice::new(b))) {
        Err(e) => DeOut::Deser(e.to_string()),
        Ok(v) => {
            let mut out = Vec::new();
            v.push_mvs(&mut out);
            DeOut::Ok(out)
        }
    }
}

/// struct-level `#[scylla(..)]` tokens -> description
macro_rules! sflags {
    ($d:ident;) => {};
    ($d:ident; flavor = "enforce_order" $(, $($r:tt)*)?) => { $d.flavor = Flavor::Ordered; sflags!($d; $($($r)*)?); };
    ($d:ident; flavor = "match_by_name" $(, $($r:tt)*)?) => { $d.flavor = Flavor::ByName; sflags!($d; $($($r)*)?); };
    ($d:ident; skip_name_checks $(, $($r:tt)*)?) => { $d.skip_name_checks = true; sflags!($d; $($($r)*)?); };
    ($d:ident; forbid_excess_udt_fields $(, $($r:tt)*)?) => { $d.forbid_excess = true; sflags!($d; $($($r)*)?); };
}

/// field-level `#[scylla(..)]` tokens -> description
macro_rules! fflags {
    ($d:ident;) => {};
    ($d:ident; rename = $v:literal $(, $($r:tt)*)?) => { $d.cql = $v.to_string(); $d.renamed = true; fflags!($d; $($($r)*)?); };
    ($d:ident; skip $(, $($r:tt)*)?) => { $d.skip = true; fflags!($d; $($($r)*)?); };
    ($d:ident; allow_missing $(, $($r:tt)*)?) => { $d.allow_missing = true; fflags!($d; $($($r)*)?); };
    ($d:ident; default_when_null $(, $($r:tt)*)?) => { $d.default_when_null = true; fflags!($d; $($($r)*)?); };
    ($d:ident; flatten $(, $($r:tt)*)?) => { fflags!($d; $($($r)*)?); };
}

/// capability list -> entry function pointers
macro_rules! caps {
    ($e:ident, [$($t:tt)*];) => {};
    ($e:ident, [$($t:tt)*]; su $($r:ident)*) => {
        {
            fn f<'a>(v: &'a [MV], typ: &ColumnType<'_>) -> Result<Vec<u8>, String> {
                let s = <$($t)* as FieldConv<'a>>::from_mvs(v);
                ser_udt_impl(&s, typ)
            }
            $e.ser_udt = Some(f);
        }
        caps!($e, [$($t)*]; $($r)*);
    };
    ($e:ident, [$($t:tt)*]; du $($r:ident)*) => {
        {
            fn f<'a>(typ: &'a ColumnType<'a>, b: &'a Bytes) -> DeOut {
                de_udt_impl::<$($t)*>(typ, b)
            }
            $e.de_udt = Some(f);
        }
        caps!($e, [$($t)*]; $($r)*);
    };
    ($e:ident, [$($t:tt)*]; sr $($r:ident)*) => {
        {
            fn f<'a>(v: &'a [MV], specs: &[ColumnSpec<'_>]) -> Result<(Vec<u8>, usize), String> {
                let s = <$($t)* as FieldConv<'a>>::from_mvs(v);
                ser_row_impl(&s, specs)
            }
            $e.ser_row = Some(f);
        }
        caps!($e, [$($t)*]; $($r)*);
    };
    ($e:ident, [$($t:tt)*]; dr $($r:ident)*) => {
        {
            fn f<'a>(specs: &'a [ColumnSpec<'a>], b: &'a Bytes) -> DeOut {
                de_row_impl::<$($t)*>(specs, b)
            }
            $e.de_row = Some(f);
        }
        caps!($e, [$($t)*]; $($r)*);
    };
}

macro_rules! fam {
    (
        mod $m:ident [$($lt:lifetime)?]
        derive($($der:path),*)
        scylla($($sattr:tt)*)
        caps($($cap:ident)*)
        { $( $f:ident : $ty:ty [ $($fattr:tt)* ] ),* $(,)? }
    ) => {
        pub mod $m {
            #![allow(dead_code, unused_mut, unused_variables, unused_assignments)]
            use super::*;

            #[derive(Debug, $($der),*)]
            #[scylla($($sattr)*)]
            pub struct S<$($lt)?> {
                $( #[scylla($($fattr)*)] pub $f: $ty, )*
            }

            impl<'a> FieldConv<'a> for S<$($lt)?> {
                fn n() -> usize {
                    0 $( + <$ty as FieldConv<'a>>::n() )*
                }
                fn from_mvs(v: &'a [MV]) -> Self {
                    let mut i = 0usize;
                    $(
                        let k = <$ty as FieldConv<'a>>::n();
                        let $f = <$ty as FieldConv<'a>>::from_mvs(&v[i..i + k]);
                        i += k;
                    )*
                    S { $($f),* }
                }
                fn push_mvs(&self, out: &mut Vec<MV>) {
                    $( <$ty as FieldConv<'a>>::push_mvs(&self.$f, out); )*
                }
                fn kind() -> FieldKind {
                    let mut s = StructDesc {
                        name: stringify!($m),
                        flavor: Flavor::ByName,
                        skip_name_checks: false,
                        forbid_excess: false,
                        fields: Vec::new(),
                    };
                    sflags!(s; $($sattr)*);
                    $(
                        {
                            let mut d = FieldDesc {
                                rust: stringify!($f),
                                cql: stringify!($f).to_string(),
                                renamed: false,
                                kind: <$ty as FieldConv<'a>>::kind(),
                                skip: false,
                                allow_missing: false,
                                default_when_null: false,
                            };
                            fflags!(d; $($fattr)*);
                            s.fields.push(d);
                        }
                    )*
                    FieldKind::Flatten(Box::new(s))
                }
            }

            pub fn desc<'a>() -> StructDesc {
                match <S<$($lt)?> as FieldConv<'a>>::kind() {
                    FieldKind::Flatten(d) => *d,
                    _ => unreachable!(),
                }
            }

            pub fn entry() -> Entry {
                let desc = desc();
                let mut e = Entry { name: stringify!($m), desc, ser_udt: None, de_udt: None, ser_row: None, de_row: None };
                caps!(e, [S<$($lt)?>]; $($cap)*);
                e
            }
        }
    };
}

// Shorthands for the derive lists.
// UDT structs: SerializeValue + DeserializeValue; row structs: SerializeRow + DeserializeRow.

// ---------------------------------------------------------------- UDT, match_by_name (default)
fam! { mod u01 [] derive(scylla::SerializeValue, scylla::DeserializeValue) scylla() caps(su du)
    { a: i32 [], b: String [], c: i64 [], d: bool [] } }
fam! { mod u02 [] derive(scylla::SerializeValue, scylla::DeserializeValue) scylla(flavor = "match_by_name") caps(su du)
    { a: Option<i32> [], b: Option<String> [], c: f64 [], d: Option<bool> [] } }
fam! { mod u03 [] derive(scylla::SerializeValue, scylla::DeserializeValue) scylla() caps(su du)
    { a: i32 [rename = "x"], b: String [], c: i64 [rename = "a"] } }
fam! { mod u04 [] derive(scylla::SerializeValue, scylla::DeserializeValue) scylla() caps(su du)
    { a: i32 [rename = "b"], b: Option<String> [rename = "a"] } }
fam! { mod u05 [] derive(scylla::SerializeValue, scylla::DeserializeValue) scylla() caps(su du)
    { a: i32 [], s: String [skip], b: Option<i64> [], t: i32 [skip], c: bool [] } }
fam! { mod u06 [] derive(scylla::SerializeValue, scylla::DeserializeValue) scylla() caps(su du)
    { a: i32 [default_when_null], b: String [default_when_null], c: Option<i64> [default_when_null], d: bool [] } }
fam! { mod u07 [] derive(scylla::SerializeValue, scylla::DeserializeValue) scylla() caps(su du)
    { a: i32 [], b: Option<String> [allow_missing], c: i64 [allow_missing], d: bool [] } }
fam! { mod u08 [] derive(scylla::SerializeValue, scylla::DeserializeValue) scylla(forbid_excess_udt_fields) caps(su du)
    { a: i32 [], b: String [], c: Option<i64> [] } }
fam! { mod u09 [] derive(scylla::SerializeValue, scylla::DeserializeValue) scylla(forbid_excess_udt_fields) caps(su du)
    { a: i32 [rename = "k"], s: String [skip], b: Option<i32> [allow_missing], c: bool [default_when_null], d: String [allow_missing, default_when_null] } }
fam! { mod u10 [] derive(scylla::SerializeValue, scylla::DeserializeValue) scylla() caps(su du)
    { a: i32 [], b: String [], c: i64 [], d: bool [], e: f64 [], f: Option<Vec<u8>> [] } }
fam! { mod u11 [] derive(scylla::SerializeValue, scylla::DeserializeValue) scylla() caps(su du)
    { a: i32 [], b: i32 [], c: i32 [], d: Option<i32> [] } }
fam! { mod u12 [] derive(scylla::SerializeValue, scylla::DeserializeValue) scylla() caps(su du)
    { a: i32 [] } }
fam! { mod u13 [] derive(scylla::SerializeValue, scylla::DeserializeValue) scylla() caps(su du)
    { } }
fam! { mod u14 ['a] derive(scylla::SerializeValue, scylla::DeserializeValue) scylla() caps(su du)
    { a: &'a str [], b: &'a [u8] [], c: Option<&'a str> [default_when_null], d: i32 [] } }
fam! { mod u15 [] derive(scylla::SerializeValue, scylla::DeserializeValue) scylla() caps(su du)
    { a: i32 [allow_missing], b: String [allow_missing, default_when_null], c: Option<i64> [allow_missing] } }

fam! { mod u16 [] derive(scylla::SerializeValue, scylla::DeserializeValue) scylla() caps(su du)
    { a: i32 [allow_missing], b: i32 [] } }

// ---------------------------------------------------------------- UDT, enforce_order
fam! { mod u20 [] derive(scylla::SerializeValue, scylla::DeserializeValue) scylla(flavor = "enforce_order") caps(su du)
    { a: i32 [], b: String [], c: i64 [], d: bool [] } }
fam! { mod u21 [] derive(scylla::SerializeValue, scylla::DeserializeValue) scylla(flavor = "enforce_order") caps(su du)
    { a: i32 [rename = "x"], s: String [skip], b: Option<String> [], c: i64 [rename = "a"] } }
fam! { mod u22 [] derive(scylla::SerializeValue, scylla::DeserializeValue) scylla(flavor = "enforce_order") caps(su du)
    { a: i32 [], b: Option<String> [allow_missing], c: i64 [], d: bool [allow_missing] } }
fam! { mod u23 [] derive(scylla::SerializeValue, scylla::DeserializeValue) scylla(flavor = "enforce_order", forbid_excess_udt_fields) caps(su du)
    { a: i32 [], b: String [], c: Option<i64> [] } }
fam! { mod u24 [] derive(scylla::SerializeValue, scylla::DeserializeValue) scylla(flavor = "enforce_order", forbid_excess_udt_fields) caps(su du)
    { a: i32 [default_when_null], b: Option<String> [allow_missing], c: bool [allow_missing, default_when_null] } }
fam! { mod u25 [] derive(scylla::SerializeValue, scylla::DeserializeValue) scylla(flavor = "enforce_order") caps(su du)
    { a: i32 [default_when_null], b: String [default_when_null], c: Option<f64> [default_when_null], d: i64 [] } }
fam! { mod u26 [] derive(scylla::SerializeValue, scylla::DeserializeValue) scylla(flavor = "enforce_order", skip_name_checks) caps(su du)
    { a: i32 [], b: String [], c: Option<i64> [] } }
fam! { mod u27 [] derive(scylla::SerializeValue, scylla::DeserializeValue) scylla(flavor = "enforce_order", skip_name_checks, forbid_excess_udt_fields) caps(su du)
    { a: i32 [], b: String [default_when_null], c: Option<i64> [allow_missing], d: bool [allow_missing] } }
fam! { mod u28 [] derive(scylla::SerializeValue, scylla::DeserializeValue) scylla(flavor = "enforce_order", skip_name_checks) caps(su du)
    { a: i32 [], s: i32 [skip], b: i32 [], c: Option<i32> [] } }
fam! { mod u29 ['a] derive(scylla::SerializeValue, scylla::DeserializeValue) scylla(flavor = "enforce_order") caps(su du)
    { a: &'a str [default_when_null], x: String [skip], b: Option<&'a [u8]> [allow_missing] } }
fam! { mod u30 [] derive(scylla::SerializeValue, scylla::DeserializeValue) scylla(flavor = "enforce_order") caps(su du)
    { } }

// ---------------------------------------------------------------- rows, match_by_name
fam! { mod r01 [] derive(scylla::SerializeRow, scylla::DeserializeRow) scylla() caps(sr dr)
    { a: i32 [], b: String [], c: i64 [], d: bool [] } }
fam! { mod r02 [] derive(scylla::SerializeRow, scylla::DeserializeRow) scylla() caps(sr dr)
    { a: Option<i32> [], b: String [default_when_null], c: Option<f64> [default_when_null], d: i64 [] } }
fam! { mod r03 [] derive(scylla::SerializeRow, scylla::DeserializeRow) scylla() caps(sr dr)
    { a: i32 [rename = "x"], s: String [skip], b: Option<String> [], c: i64 [rename = "a"] } }
fam! { mod r04 [] derive(scylla::SerializeRow, scylla::DeserializeRow) scylla() caps(sr dr)
    { a: i32 [], b: String [], c: i64 [], d: bool [], e: f64 [], f: Option<Vec<u8>> [] } }
fam! { mod r05 [] derive(scylla::SerializeRow, scylla::DeserializeRow) scylla() caps(sr dr)
    { a: i32 [], b: i32 [], c: Option<i32> [], d: i32 [default_when_null] } }
fam! { mod r06 ['a] derive(scylla::SerializeRow, scylla::DeserializeRow) scylla() caps(sr dr)
    { a: &'a str [], b: Option<&'a [u8]> [], c: i32 [rename = "cc"] } }
fam! { mod r07 [] derive(scylla::SerializeRow, scylla::DeserializeRow) scylla() caps(sr dr)
    { } }
fam! { mod r08 [] derive(scylla::SerializeRow, scylla::DeserializeRow) scylla() caps(sr dr)
    { a: i32 [rename = "b"], b: Option<String> [rename = "a"] } }

// ---------------------------------------------------------------- rows, enforce_order
fam! { mod r20 [] derive(scylla::SerializeRow, scylla::DeserializeRow) scylla(flavor = "enforce_order") caps(sr dr)
    { a: i32 [], b: String [], c: i64 [], d: bool [] } }
fam! { mod r21 [] derive(scylla::SerializeRow, scylla::DeserializeRow) scylla(flavor = "enforce_order") caps(sr dr)
    { a: i32 [rename = "x"], s: String [skip], b: Option<String> [default_when_null], c: i64 [rename = "a", default_when_null] } }
fam! { mod r22 [] derive(scylla::SerializeRow, scylla::DeserializeRow) scylla(flavor = "enforce_order", skip_name_checks) caps(sr dr)
    { a: i32 [], b: String [], c: Option<i64> [] } }
fam! { mod r23 [] derive(scylla::SerializeRow, scylla::DeserializeRow) scylla(flavor = "enforce_order", skip_name_checks) caps(sr dr)
    { a: i32 [], s: i32 [skip], b: i32 [default_when_null], c: Option<i32> [] } }
fam! { mod r24 ['a] derive(scylla::SerializeRow, scylla::DeserializeRow) scylla(flavor = "enforce_order") caps(sr dr)
    { a: &'a str [], b: Option<&'a str> [], c: bool [] } }
fam! { mod r25 [] derive(scylla::SerializeRow, scylla::DeserializeRow) scylla(flavor = "enforce_order") caps(sr dr)
    { } }

// ---------------------------------------------------------------- all four derives on one struct
fam! { mod a01 [] derive(scylla::SerializeValue, scylla::DeserializeValue, scylla::SerializeRow, scylla::DeserializeRow) scylla() caps(su du sr dr)
    { a: i32 [], b: Option<String> [default_when_null], c: i64 [rename = "cc"], s: bool [skip] } }
fam! { mod a02 [] derive(scylla::SerializeValue, scylla::DeserializeValue, scylla::SerializeRow, scylla::DeserializeRow) scylla(flavor = "enforce_order") caps(su du sr dr)
    { a: i32 [], b: Option<String> [default_when_null], c: i64 [rename = "cc"], s: bool [skip] } }

// ---------------------------------------------------------------- flatten (SerializeRow only)
fam! { mod fi1 [] derive(scylla::SerializeRow) scylla() caps(sr)
    { p: String [], q: Option<i64> [] } }
fam! { mod fi2 [] derive(scylla::SerializeRow) scylla() caps(sr)
    { r: i32 [rename = "rr"], t: bool [], u: i32 [skip] } }
fam! { mod f01 [] derive(scylla::SerializeRow) scylla() caps(sr)
    { x: i32 [], inner: fi1::S [flatten], y: bool [] } }
fam! { mod fm1 [] derive(scylla::SerializeRow) scylla() caps(sr)
    { l: fi2::S [flatten], m: i64 [] } }
fam! { mod f02 [] derive(scylla::SerializeRow) scylla() caps(sr)
    { mid: fm1::S [flatten], x: Option<i32> [], s: String [skip] } }
fam! { mod f03 [] derive(scylla::SerializeRow) scylla() caps(sr)
    { one: fi1::S [flatten], two: fi2::S [flatten] } }
fam! { mod fo1 [] derive(scylla::SerializeRow) scylla(flavor = "enforce_order") caps(sr)
    { p: String [], q: Option<i64> [rename = "qq"] } }
fam! { mod f04 [] derive(scylla::SerializeRow) scylla(flavor = "enforce_order") caps(sr)
    { x: i32 [], inner: fo1::S [flatten], y: bool [] } }
fam! { mod f05 [] derive(scylla::SerializeRow) scylla(flavor = "enforce_order", skip_name_checks) caps(sr)
    { x: i32 [], inner: fo1::S [flatten], y: bool [] } }
fam! { mod f06 ['a] derive(scylla::SerializeRow) scylla() caps(sr)
    { x: &'a str [], inner: fi1::S [flatten] } }

pub fn family() -> Vec<Entry> {
    vec![
        u01::entry(), u02::entry(), u03::entry(), u04::entry(), u05::entry(), u06::entry(), u07::entry(), u08::entry(),
        u09::entry(), u10::entry(), u11::entry(), u12::entry(), u13::entry(), u14::entry(), u15::entry(), u16::entry(),
        u20::entry(), u21::entry(), u22::entry(), u23::entry(), u24::entry(), u25::entry(), u26::entry(), u27::entry(),
        u28::entry(), u29::entry(), u30::entry(),
        r01::entry(), r02::entry(), r03::entry(), r04::entry(), r05::entry(), r06::entry(), r07::entry(), r08::entry(),
        r20::entry(), r21::entry(), r22::entry(), r23::entry(), r24::entry(), r25::entry(),
        a01::entry(), a02::entry(),
        fi1::entry(), fi2::entry(), f01::entry(), fm1::entry(), f02::entry(), f03::entry(), fo1::entry(), f04::entry(),
        f05::entry(), f06::entry(),
    ]
}
