//! C16 — derived row/UDT mappings bind fields by name regardless of database order.
//!
//! The REAL derive macros (rebuilt from /repo/scylla-macros) are applied to a fixed family of structs
//! (`family.rs`). For every struct and every database-side field list of the bounded space
//! (all subsets of the struct's fields missing x a fixed family of extra fields x ALL permutations,
//! at most `max_db` entries; plus type-swapped and repeated-name variants) the monitor runs
//! serialization and type_check + deserialization under every null pattern with random values and
//! compares accept/reject, the emitted bytes and the produced field values with the table-driven
//! interpreter of the documented attribute semantics in `refmodel::derive`.
mod family;

use crate::fw::{self, Ctx, Outcome, Rng};
use crate::refmodel::derive::{self as model, Cell, CqlT, DbField, Flavor, LeafDesc, MV, Pred, Scalar, StructDesc};
use bytes::Bytes;
use family::{DeOut, Entry};
use scylla::_macro_internal::{ColumnSpec, ColumnType};
use scylla::frame::response::result::{NativeType, TableSpec, UserDefinedType};
use serde_json::{Value, json};
use std::sync::Arc;

#[derive(Clone, Copy, PartialEq, Eq, Debug)]
enum Target {
    Udt,
    Row,
}

impl Target {
    fn tag(self) -> &'static str {
        match self {
            Target::Udt => "udt",
            Target::Row => "row",
        }
    }
}

fn native(t: CqlT) -> ColumnType<'static> {
    ColumnType::Native(match t {
        CqlT::Int => NativeType::Int,
        CqlT::BigInt => NativeType::BigInt,
        CqlT::Text => NativeType::Text,
        CqlT::Boolean => NativeType::Boolean,
        CqlT::Double => NativeType::Double,
        CqlT::Blob => NativeType::Blob,
    })
}

fn udt_type(db: &[DbField]) -> ColumnType<'static> {
    ColumnType::UserDefinedType {
        frozen: false,
        definition: Arc::new(UserDefinedType {
            name: "c16_udt".into(),
            keyspace: "ks".into(),
            field_types: db.iter().map(|d| (d.name.clone().into(), native(d.ty))).collect(),
        }),
    }
}

fn specs(db: &[DbField]) -> Vec<ColumnSpec<'static>> {
    db.iter()
        .map(|d| ColumnSpec::owned(d.name.clone(), native(d.ty), TableSpec::owned("ks".into(), "tbl".into())))
        .collect()
}

fn flavor_tag(d: &StructDesc) -> &'static str {
    match (d.flavor, d.skip_name_checks) {
        (Flavor::ByName, _) => "by_name",
        (Flavor::Ordered, false) => "ordered",
        (Flavor::Ordered, true) => "ordered+skip_name_checks",
    }
}

// ------------------------------------------------------------------------------------------------
// value generation
// ------------------------------------------------------------------------------------------------

fn rand_scalar(rng: &mut Rng, t: CqlT) -> Scalar {
    match t {
        CqlT::Int => Scalar::Int(match rng.below(6) {
            0 => 0,
            1 => -1,
            2 => i32::MIN,
            3 => i32::MAX,
            _ => rng.u32() as i32,
        }),
        CqlT::BigInt => Scalar::BigInt(rng.i64_boundary()),
        CqlT::Boolean => Scalar::Boolean(rng.bool()),
        CqlT::Double => Scalar::Double(match rng.below(6) {
            0 => 0f64.to_bits(),
            1 => (-0f64).to_bits(),
            2 => f64::NAN.to_bits(),
            3 => f64::INFINITY.to_bits(),
            _ => rng.u64(),
        }),
        CqlT::Text => {
            const ALPH: [&str; 12] = ["a", "b", "Z", "0", " ", "ż", "ó", "日", "\u{1F980}", "_", "\"", "\0"];
            let n = if rng.chance(1, 5) { 0 } else { rng.usize(1, 9) };
            let mut s = String::new();
            for _ in 0..n {
                s.push_str(*rng.pick(&ALPH[..]));
            }
            Scalar::Text(s)
        }
        CqlT::Blob => {
            let n = if rng.chance(1, 5) { 0 } else { rng.usize(1, 12) };
            Scalar::Blob(rng.bytes(n))
        }
    }
}

/// Values for all leaves (skipped ones too); `nulls` bit i = i-th OPTIONAL leaf is None.
fn gen_vals(rng: &mut Rng, leaves: &[LeafDesc], nulls: u32) -> Vec<MV> {
    let mut k = 0;
    leaves
        .iter()
        .map(|l| {
            if l.optional {
                let isnull = nulls >> k & 1 == 1;
                k += 1;
                if isnull {
                    return None;
                }
            }
            Some(rand_scalar(rng, l.ty))
        })
        .collect()
}

fn gen_cells(rng: &mut Rng, db: &[DbField], len: usize, nulls: u32) -> Vec<Cell> {
    (0..len).map(|i| if nulls >> i & 1 == 1 { Cell::Null } else { Cell::Val(rand_scalar(rng, db[i].ty)) }).collect()
}

// ------------------------------------------------------------------------------------------------
// database-side list enumeration
// ------------------------------------------------------------------------------------------------

fn permutations<T: Clone>(items: &[T], out: &mut Vec<Vec<T>>) {
    // Heap's algorithm, iterative
    let n = items.len();
    let mut a: Vec<T> = items.to_vec();
    let mut c = vec![0usize; n];
    out.push(a.clone());
    let mut i = 0;
    while i < n {
        if c[i] < i {
            if i % 2 == 0 {
                a.swap(0, i);
            } else {
                a.swap(c[i], i);
            }
            out.push(a.clone());
            c[i] += 1;
            i = 0;
        } else {
            c[i] = 0;
            i += 1;
        }
    }
}

struct DbSpace {
    lists: Vec<Vec<DbField>>,
    /// number of lists that belong to the exhaustive permutation space (the rest are variants)
    n_perm_space: usize,
}

/// The bounded space of database-side lists for one struct.
fn db_space(desc: &StructDesc, max_db: usize) -> DbSpace {
    let leaves = desc.leaves();
    let canon: Vec<DbField> = leaves.iter().filter(|l| !l.skip).map(|l| DbField { name: l.cql.clone(), ty: l.ty }).collect();
    let k = canon.len();
    // extras: two generic names + names that are "near misses" for this struct: names of skipped
    // fields and Rust identifiers of renamed fields (when they are not somebody's CQL name).
    let mut special: Vec<DbField> = Vec::new();
    for l in &leaves {
        let near = if l.skip {
            Some(l.cql.clone())
        } else if l.renamed {
            Some(l.rust.to_string())
        } else {
            None
        };
        if let Some(n) = near {
            if !canon.iter().any(|c| c.name == n) && !special.iter().any(|c| c.name == n) {
                special.push(DbField { name: n, ty: l.ty });
            }
        }
    }
    let zz = DbField { name: "zz".into(), ty: CqlT::Int };
    let zy = DbField { name: "zy".into(), ty: CqlT::Text };
    let mut extra_sets: Vec<Vec<DbField>> = vec![vec![], vec![zz.clone()], vec![zy.clone()], vec![zz.clone(), zy.clone()]];
    for s in &special {
        extra_sets.push(vec![s.clone()]);
        extra_sets.push(vec![s.clone(), zz.clone()]);
    }
    let mut lists = Vec::new();
    for mask in 0u32..(1 << k) {
        let kept: Vec<DbField> = (0..k).filter(|i| mask >> i & 1 == 1).map(|i| canon[i].clone()).collect();
        for ex in &extra_sets {
            if kept.len() + ex.len() > max_db {
                continue;
            }
            let mut all = kept.clone();
            all.extend(ex.iter().cloned());
            permutations(&all, &mut lists);
        }
    }
    let n_perm_space = lists.len();
    // variants: one type swapped (declared order and reversed), one name repeated
    let mut rev = canon.clone();
    rev.reverse();
    for base in [&canon, &rev] {
        for i in 0..k {
            let mut v = base.clone();
            v[i].ty = v[i].ty.mismatching();
            lists.push(v.clone());
            if v.len() < max_db {
                v.push(zz.clone());
                lists.push(v);
            }
        }
    }
    if k + 1 <= max_db.max(2) {
        for i in 0..k {
            let mut v = canon.clone();
            v.push(canon[i].clone());
            lists.push(v);
            let mut v = canon.clone();
            v.insert(0, canon[i].clone());
            lists.push(v);
            if k >= 2 {
                // repeated name replacing another field (same length as the struct)
                let mut v = canon.clone();
                let j = (i + 1) % k;
                v[j] = canon[i].clone();
                lists.push(v);
            }
        }
    }
    DbSpace { lists, n_perm_space }
}

// ------------------------------------------------------------------------------------------------
// single-case monitors
// ------------------------------------------------------------------------------------------------

fn db_json(db: &[DbField]) -> Value {
    Value::Array(db.iter().map(|d| json!([d.name, d.ty.tag()])).collect())
}
fn db_from_json(v: &Value) -> Vec<DbField> {
    v.as_array()
        .map(|a| {
            a.iter()
                .map(|x| DbField { name: x[0].as_str().unwrap_or("").to_owned(), ty: CqlT::from_tag(x[1].as_str().unwrap_or("")).unwrap_or(CqlT::Int) })
                .collect()
        })
        .unwrap_or_default()
}
fn cells_json(c: &[Cell]) -> Value {
    Value::Array(
        c.iter()
            .map(|c| match c {
                Cell::Null => Value::Null,
                Cell::Val(s) => s.to_json(),
            })
            .collect(),
    )
}
fn cells_from_json(v: &Value) -> Vec<Cell> {
    v.as_array()
        .map(|a| a.iter().map(|x| if x.is_null() { Cell::Null } else { Cell::Val(Scalar::from_json(x).expect("cell")) }).collect())
        .unwrap_or_default()
}
fn mvs_json(v: &[MV]) -> Value {
    Value::Array(v.iter().map(model::mv_to_json).collect())
}

fn describe(e: &Entry) -> String {
    fn go(d: &StructDesc, out: &mut String) {
        out.push_str(&format!("{}[{}{}]{{", d.name, flavor_tag(d), if d.forbid_excess { ",forbid_excess_udt_fields" } else { "" }));
        for f in &d.fields {
            out.push_str(f.rust);
            if f.renamed {
                out.push_str(&format!("(rename={})", f.cql));
            }
            match &f.kind {
                model::FieldKind::Leaf { ty, optional } => {
                    out.push_str(&format!(":{}{}", if *optional { "Option " } else { "" }, ty.tag()));
                }
                model::FieldKind::Flatten(inner) => {
                    out.push_str(":flatten ");
                    go(inner, out);
                }
            }
            for (on, n) in [(f.skip, "skip"), (f.allow_missing, "allow_missing"), (f.default_when_null, "default_when_null")] {
                if on {
                    out.push_str(&format!(" #{n}"));
                }
            }
            out.push_str("; ");
        }
        out.push('}');
    }
    let mut s = String::new();
    go(&e.desc, &mut s);
    s
}

fn sig(op: &str, t: Target, d: &StructDesc, kind: &str) -> String {
    format!("{op}_{}:{}:{kind}", t.tag(), flavor_tag(d))
}

/// Serialization of `vals` against `db`; returns the driver's bytes when it accepted.
fn check_ser(o: &mut Outcome, e: &Entry, t: Target, db: &[DbField], vals: &[MV]) -> Option<Vec<u8>> {
    let d = &e.desc;
    let replay = json!({"struct": e.name, "target": t.tag(), "op": "ser", "db": db_json(db), "vals": mvs_json(vals)});
    let ctxt = || format!("struct {} against {} {:?} with values {:?}", describe(e), t.tag(), db.iter().map(|d| format!("{}:{}", d.name, d.ty.tag())).collect::<Vec<_>>(), vals);
    // (bytes, value count) — count is only meaningful for rows
    let (pred, got): (Pred<(Vec<u8>, usize)>, Result<Result<(Vec<u8>, usize), String>, String>) = match t {
        Target::Udt => {
            let f = e.ser_udt.expect("ser_udt");
            let typ = udt_type(db);
            let pred = match model::predict_ser_udt(d, db, vals) {
                Pred::Accept(b) => Pred::Accept((b, 0)),
                Pred::Reject(r) => Pred::Reject(r),
                Pred::Unspecified(r) => Pred::Unspecified(r),
            };
            (pred, fw::catch(|| f(vals, &typ).map(|b| (b, 0))))
        }
        Target::Row => {
            let f = e.ser_row.expect("ser_row");
            let sp = specs(db);
            (model::predict_ser_row(d, db, vals), fw::catch(|| f(vals, &sp)))
        }
    };
    o.class(&format!("ser_{}:{}:{}", t.tag(), flavor_tag(d), pred.tag()));
    let got = match got {
        Err(p) => {
            o.violation(sig("ser", t, d, "panic"), format!("serialization panicked ({}): {}", fw::first_line(&p), ctxt()), replay);
            return None;
        }
        Ok(g) => g,
    };
    match (&pred, &got) {
        (Pred::Accept(want), Ok(g)) => {
            if want != g {
                o.violation(
                    sig("ser", t, d, "bytes-mismatch"),
                    format!("serialized bytes differ: driver {} (count {}), documented {} (count {}); {}", fw::hex(&g.0), g.1, fw::hex(&want.0), want.1, ctxt()),
                    replay,
                );
                return None;
            }
        }
        (Pred::Accept(_), Err(err)) => {
            o.violation(sig("ser", t, d, "rejected-but-documented-accept"), format!("driver rejected ({}) what the docs accept; {}", fw::first_line(err), ctxt()), replay);
        }
        (Pred::Reject(rule), Ok(g)) => {
            o.violation(
                sig("ser", t, d, &format!("accepted-but-documented-reject:{rule}")),
                format!("driver serialized (bytes {}) what the docs reject (rule {rule}); {}", fw::hex(&g.0), ctxt()),
                replay,
            );
        }
        (Pred::Reject(rule), Err(_)) => {
            o.class(&format!("reject:{rule}"));
        }
        (Pred::Unspecified(r), _) => {
            o.class(&format!("not-asserted:{r}"));
        }
    }
    got.ok().map(|g| g.0)
}

fn run_de(e: &Entry, t: Target, db: &[DbField], bytes: &Bytes) -> Result<DeOut, String> {
    match t {
        Target::Udt => {
            let f = e.de_udt.expect("de_udt");
            let typ = udt_type(db);
            fw::catch(|| f(&typ, bytes))
        }
        Target::Row => {
            let f = e.de_row.expect("de_row");
            let sp = specs(db);
            fw::catch(|| f(&sp, bytes))
        }
    }
}

/// type_check + deserialize of `cells` (already encoded in `bytes`) against `db`.
fn check_de(o: &mut Outcome, e: &Entry, t: Target, db: &[DbField], cells: &[Cell], bytes: &Bytes, op: &str) {
    let d = &e.desc;
    let replay = json!({"struct": e.name, "target": t.tag(), "op": "de", "db": db_json(db), "cells": cells_json(cells)});
    let ctxt = || format!("struct {} against {} {:?} with cells {:?}", describe(e), t.tag(), db.iter().map(|d| format!("{}:{}", d.name, d.ty.tag())).collect::<Vec<_>>(), cells);
    let (pred, meta) = match t {
        Target::Udt => (model::predict_de_udt(d, db, cells), model::predict_typecheck_udt(d, db)),
        Target::Row => (model::predict_de_row(d, db, cells), model::predict_typecheck_row(d, db)),
    };
    o.class(&format!("{op}_{}:{}:{}", t.tag(), flavor_tag(d), pred.tag()));
    // a round-trip failure is a deserialization failure on bytes the driver produced itself
    let op = "de";
    let got = match run_de(e, t, db, bytes) {
        Err(p) => {
            o.violation(sig(op, t, d, "panic"), format!("type_check/deserialize panicked ({}): {}", fw::first_line(&p), ctxt()), replay);
            return;
        }
        Ok(g) => g,
    };
    match (&pred, &got) {
        (Pred::Accept(want), DeOut::Ok(g)) => {
            if want != g {
                o.violation(sig(op, t, d, "values-mismatch"), format!("deserialized fields {:?}, documented {:?}; {}", g, want, ctxt()), replay);
            }
        }
        (Pred::Accept(_), DeOut::TypeCheck(err)) | (Pred::Accept(_), DeOut::Deser(err)) => {
            let stage = if matches!(got, DeOut::TypeCheck(_)) { "type_check" } else { "deserialize" };
            o.violation(sig(op, t, d, &format!("rejected-but-documented-accept:{stage}")), format!("driver's {stage} rejected ({}) what the docs accept; {}", fw::first_line(err), ctxt()), replay);
        }
        (Pred::Reject(rule), DeOut::Ok(g)) => {
            o.violation(
                sig(op, t, d, &format!("accepted-but-documented-reject:{rule}")),
                format!("driver produced {:?} for what the docs reject (rule {rule}); {}", g, ctxt()),
                replay,
            );
        }
        (Pred::Reject(rule), DeOut::TypeCheck(err)) => {
            if matches!(meta, Pred::Accept(())) {
                // the metadata is fine (only the data is not): type_check has no business failing
                o.violation(sig(op, t, d, "type_check-rejects-documented-metadata"), format!("type_check rejected ({}) metadata the docs accept; {}", fw::first_line(err), ctxt()), replay);
            } else {
                o.class(&format!("reject:{rule}"));
                o.class("reject-stage:type_check");
            }
        }
        (Pred::Reject(rule), DeOut::Deser(_)) => {
            o.class(&format!("reject:{rule}"));
            o.class("reject-stage:deserialize");
        }
        (Pred::Unspecified(r), _) => {
            o.class(&format!("not-asserted:{r}"));
        }
    }
}

// ------------------------------------------------------------------------------------------------
// per (struct, target, db list) workload
// ------------------------------------------------------------------------------------------------

struct Budget {
    /// all null patterns over optional fields / cells when true, a fixed sub-family otherwise
    full_null_patterns: bool,
    value_rounds: u32,
}

fn null_patterns(n: usize, full: bool, rng: &mut Rng) -> Vec<u32> {
    let all = 1u32 << n;
    if full || n <= 3 {
        return (0..all).collect();
    }
    // none, all, each single null, each single non-null, two random ones
    let mut v = vec![0, all - 1];
    for i in 0..n {
        v.push(1 << i);
        v.push((all - 1) & !(1 << i));
    }
    v.push(rng.below(all as u64) as u32);
    v.push(rng.below(all as u64) as u32);
    v.sort_unstable();
    v.dedup();
    v
}

fn features(o: &mut Outcome, e: &Entry, leaves: &[LeafDesc], db: &[DbField]) {
    let act: Vec<&LeafDesc> = leaves.iter().filter(|l| !l.skip).collect();
    let declared: Vec<&str> = act.iter().map(|l| l.cql.as_str()).collect();
    let present: Vec<&str> = db.iter().map(|d| d.name.as_str()).filter(|n| declared.contains(n)).collect();
    let declared_present: Vec<&str> = declared.iter().copied().filter(|n| present.contains(n)).collect();
    if present != declared_present {
        o.class("db:permuted");
    }
    if act.iter().any(|l| !db.iter().any(|d| d.name == l.cql)) {
        o.class("db:field-missing");
    }
    if db.iter().any(|d| !declared.contains(&d.name.as_str())) {
        o.class("db:extra-field");
        if db.iter().rposition(|d| !declared.contains(&d.name.as_str())) != Some(db.len() - 1) || db.iter().position(|d| !declared.contains(&d.name.as_str())) != Some(db.len() - 1) {
            o.class("db:extra-field-not-only-last");
        }
    }
    if act.iter().any(|l| l.renamed) {
        o.class("attr:rename");
    }
    if leaves.iter().any(|l| l.skip) {
        o.class("attr:skip");
    }
    if act.iter().any(|l| l.allow_missing && !db.iter().any(|d| d.name == l.cql)) {
        o.class("attr:allow_missing-field-absent");
    }
    if act.iter().any(|l| l.default_when_null) {
        o.class("attr:default_when_null");
    }
    if e.desc.forbid_excess {
        o.class("attr:forbid_excess_udt_fields");
    }
    if e.desc.has_flatten() {
        o.class("attr:flatten");
    }
    if e.desc.skip_name_checks || leaves.iter().any(|l| !l.name_checked) {
        o.class("attr:skip_name_checks");
    }
}

fn run_db_list(o: &mut Outcome, rng: &mut Rng, e: &Entry, t: Target, db: &[DbField], leaves: &[LeafDesc], b: &Budget, base_key: u64) {
    let d = &e.desc;
    features(o, e, leaves, db);
    let (ser, de) = match t {
        Target::Udt => (e.ser_udt.is_some(), e.de_udt.is_some()),
        Target::Row => (e.ser_row.is_some(), e.de_row.is_some()),
    };
    let nontrivial = !db.is_empty() || !leaves.is_empty();
    // ---- serialization
    if ser {
        let n_opt = leaves.iter().filter(|l| l.optional).count();
        // accept/reject of serialization never depends on the values: one pattern is enough on reject
        let probe = gen_vals(rng, leaves, 0);
        let rejects = match t {
            Target::Udt => matches!(model::predict_ser_udt(d, db, &probe), Pred::Reject(_)),
            Target::Row => matches!(model::predict_ser_row(d, db, &probe), Pred::Reject(_)),
        };
        let pats = if rejects { vec![0u32] } else { null_patterns(n_opt, b.full_null_patterns, rng) };
        o.case(fw::hash64(&[&base_key.to_le_bytes()[..], b"ser"].concat()), nontrivial);
        let mut first = true;
        for round in 0..b.value_rounds {
            for p in &pats {
                let vals = gen_vals(rng, leaves, *p);
                if !first {
                    o.evals(1);
                }
                first = false;
                if *p != 0 {
                    o.class("null:rust-none-serialized");
                }
                let got = check_ser(o, e, t, db, &vals);
                // identity value -> bytes -> value: the driver's own bytes, split by the model's decoder
                if let (Some(bytes), true) = (got, de) {
                    let body: &[u8] = match t {
                        Target::Udt => &bytes[4.min(bytes.len())..],
                        Target::Row => &bytes[..],
                    };
                    if let Some(cells) = model::decode_cells(db, body) {
                        o.evals(1);
                        o.class("roundtrip");
                        check_de(o, e, t, db, &cells, &Bytes::copy_from_slice(body), "roundtrip");
                    }
                }
            }
            if rejects && round == 0 {
                break;
            }
        }
    }
    // ---- deserialization
    if de {
        let meta = match t {
            Target::Udt => model::predict_typecheck_udt(d, db),
            Target::Row => model::predict_typecheck_row(d, db),
        };
        let n = db.len();
        let lens: Vec<usize> = match (t, &meta) {
            (_, Pred::Reject(_)) => vec![n],
            (Target::Udt, _) => (0..=n).rev().collect(),
            (Target::Row, _) => vec![n],
        };
        for len in lens {
            let pats = if matches!(meta, Pred::Reject(_)) { vec![0u32] } else { null_patterns(len, b.full_null_patterns, rng) };
            o.case(fw::hash64(&[&base_key.to_le_bytes()[..], b"de", &[len as u8][..]].concat()), nontrivial);
            if len < n {
                o.class("udt:truncated-value");
            }
            let mut first = true;
            let rounds = if matches!(meta, Pred::Reject(_)) { 1 } else { b.value_rounds };
            for _ in 0..rounds {
                for p in &pats {
                    let cells = gen_cells(rng, db, len, *p);
                    if !first {
                        o.evals(1);
                    }
                    first = false;
                    if *p != 0 {
                        o.class("null:db-null-cell");
                    }
                    let bytes = Bytes::from(model::encode_cells(&cells));
                    check_de(o, e, t, db, &cells, &bytes, "de");
                }
            }
        }
    }
}

// ------------------------------------------------------------------------------------------------
// replay
// ------------------------------------------------------------------------------------------------

fn replay(path: &str) -> Outcome {
    let mut o = Outcome::new();
    let v: Value = serde_json::from_str(&std::fs::read_to_string(path).expect("replay file")).expect("json");
    let r = &v["replay"];
    let fam = family::family();
    let Some(e) = fam.iter().find(|e| Some(e.name) == r["struct"].as_str()) else {
        o.inconclusive("replay names an unknown struct");
        return o;
    };
    let t = if r["target"].as_str() == Some("row") { Target::Row } else { Target::Udt };
    let db = db_from_json(&r["db"]);
    o.case(1, true);
    match r["op"].as_str() {
        Some("ser") => {
            let vals: Vec<MV> = r["vals"].as_array().map(|a| a.iter().map(model::mv_from_json).collect()).unwrap_or_default();
            if let Some(bytes) = check_ser(&mut o, e, t, &db, &vals) {
                let has_de = match t {
                    Target::Udt => e.de_udt.is_some(),
                    Target::Row => e.de_row.is_some(),
                };
                let body: &[u8] = match t {
                    Target::Udt => &bytes[4.min(bytes.len())..],
                    Target::Row => &bytes[..],
                };
                if let (true, Some(cells)) = (has_de, model::decode_cells(&db, body)) {
                    check_de(&mut o, e, t, &db, &cells, &Bytes::copy_from_slice(body), "roundtrip");
                }
            }
        }
        Some("de") => {
            let cells = cells_from_json(&r["cells"]);
            let bytes = Bytes::from(model::encode_cells(&cells));
            check_de(&mut o, e, t, &db, &cells, &bytes, "de");
        }
        _ => o.inconclusive("unrecognised replay file"),
    }
    o
}

// ------------------------------------------------------------------------------------------------
// entry point
// ------------------------------------------------------------------------------------------------

const REQUIRED: [&str; 24] = [
    "db:permuted",
    "db:field-missing",
    "db:extra-field",
    "db:extra-field-not-only-last",
    "attr:rename",
    "attr:skip",
    "attr:allow_missing-field-absent",
    "attr:default_when_null",
    "attr:forbid_excess_udt_fields",
    "attr:flatten",
    "attr:skip_name_checks",
    "null:rust-none-serialized",
    "null:db-null-cell",
    "udt:truncated-value",
    "roundtrip",
    "ser_udt:by_name:accept",
    "ser_udt:ordered:accept",
    "ser_row:by_name:accept",
    "ser_row:ordered:accept",
    "de_udt:by_name:accept",
    "de_udt:ordered:accept",
    "de_row:by_name:accept",
    "de_row:ordered:accept",
    "reject:excess-db-field",
];

pub fn run(ctx: &Ctx) -> Outcome {
    if let Some(p) = &ctx.replay {
        return replay(p);
    }
    let fam = family::family();
    // quick: at most 6 database-side entries (the property's bound), 2 rounds of random values;
    // thorough: 7 entries, 12 rounds.
    let max_db: usize = if ctx.miri() { 3 } else { ctx.extra.get("max_db").and_then(|s| s.parse().ok()).unwrap_or(if ctx.quick() { 6 } else { 7 }) };
    let budget = Budget { full_null_patterns: !ctx.miri(), value_rounds: ctx.vol(2, 12).min(64) as u32 };
    // work items: (entry, target, db list index)
    struct Item<'e> {
        e: &'e Entry,
        t: Target,
        leaves: Vec<LeafDesc>,
        space: DbSpace,
    }
    let mut items: Vec<Item> = Vec::new();
    for (i, e) in fam.iter().enumerate() {
        if ctx.miri() && i % 4 != 0 {
            continue;
        }
        if let Some(only) = ctx.extra.get("struct") {
            if only != e.name {
                continue;
            }
        }
        for t in [Target::Udt, Target::Row] {
            let has = match t {
                Target::Udt => e.ser_udt.is_some() || e.de_udt.is_some(),
                Target::Row => e.ser_row.is_some() || e.de_row.is_some(),
            };
            if has {
                items.push(Item { e, t, leaves: e.desc.leaves(), space: db_space(&e.desc, max_db) });
            }
        }
    }
    let total_lists: usize = items.iter().map(|i| i.space.lists.len()).sum();
    let perm_lists: usize = items.iter().map(|i| i.space.n_perm_space).sum();
    let workers = ctx.workers.max(1);
    // A few literal cases evaluated first (on this thread), so that — `Outcome` keeping the first
    // example per signature — the replay attached to a signature is small and the same at every seed.
    let mut out = Outcome::new();
    if !ctx.miri() && !ctx.extra.contains_key("struct") {
        let f = |n: &str, t: CqlT| DbField { name: n.into(), ty: t };
        let get = |n: &str| fam.iter().find(|e| e.name == n).unwrap();
        let i = |x: i32| Some(Scalar::Int(x));
        check_ser(&mut out, get("u16"), Target::Udt, &[f("zz", CqlT::Int)], &[i(1), i(2)]);
        check_ser(&mut out, get("u16"), Target::Udt, &[f("a", CqlT::Int)], &[i(1), i(2)]);
        let db = [f("a", CqlT::Int), f("c", CqlT::BigInt), f("b", CqlT::Text)];
        let vals = [i(1), Some(Scalar::Text("x".into())), Some(Scalar::BigInt(3)), Some(Scalar::Boolean(true))];
        check_ser(&mut out, get("u22"), Target::Udt, &db, &vals);
        let cells = [Cell::Val(Scalar::Int(1)), Cell::Val(Scalar::BigInt(3)), Cell::Val(Scalar::Text("x".into()))];
        check_de(&mut out, get("u22"), Target::Udt, &db, &cells, &Bytes::from(model::encode_cells(&cells)), "de");
        out.evals(4);
    }
    let par_out = fw::par(ctx, workers, |w, mut rng| {
        let mut o = Outcome::new();
        let mut g = 0usize;
        for it in &items {
            for db in &it.space.lists {
                g += 1;
                if g % workers != w {
                    continue;
                }
                let key = fw::hash64(format!("{}:{}:{:?}", it.e.name, it.t.tag(), db).as_bytes());
                run_db_list(&mut o, &mut rng, it.e, it.t, db, &it.leaves, &budget, key);
            }
        }
        o
    });
    out.merge(par_out);
    // literal samples
    {
        let fam_get = |n: &str| fam.iter().find(|e| e.name == n).unwrap();
        let f = |n: &str, t: CqlT| DbField { name: n.into(), ty: t };
        let e = fam_get("u01");
        let db = vec![f("d", CqlT::Boolean), f("zz", CqlT::Int), f("b", CqlT::Text), f("a", CqlT::Int), f("c", CqlT::BigInt), f("zy", CqlT::Text)];
        let vals = vec![Some(Scalar::Int(7)), Some(Scalar::Text("x".into())), Some(Scalar::BigInt(-2)), Some(Scalar::Boolean(true))];
        if let Pred::Accept(b) = model::predict_ser_udt(&e.desc, &db, &vals) {
            out.sample(json!({"struct": describe(e), "op": "serialize as UDT", "db": db_json(&db), "values": mvs_json(&vals), "documented_bytes": fw::hex(&b)}));
        }
        let e = fam_get("u23");
        let db = vec![f("a", CqlT::Int), f("b", CqlT::Text), f("c", CqlT::BigInt), f("zz", CqlT::Int)];
        out.sample(json!({"struct": describe(e), "op": "type_check UDT", "db": db_json(&db), "documented": format!("{:?}", model::predict_typecheck_udt(&e.desc, &db))}));
        let e = fam_get("u22");
        let db = vec![f("a", CqlT::Int), f("c", CqlT::BigInt)];
        let cells = vec![Cell::Val(Scalar::Int(1)), Cell::Val(Scalar::BigInt(2))];
        out.sample(json!({"struct": describe(e), "op": "deserialize UDT", "db": db_json(&db), "cells": cells_json(&cells), "documented": format!("{:?}", model::predict_de_udt(&e.desc, &db, &cells))}));
        let e = fam_get("r03");
        let db = vec![f("a", CqlT::BigInt), f("b", CqlT::Text), f("x", CqlT::Int)];
        let cells = vec![Cell::Val(Scalar::BigInt(5)), Cell::Null, Cell::Val(Scalar::Int(9))];
        out.sample(json!({"struct": describe(e), "op": "deserialize row", "db": db_json(&db), "cells": cells_json(&cells), "documented": format!("{:?}", model::predict_de_row(&e.desc, &db, &cells))}));
        let e = fam_get("f02");
        let db = vec![f("t", CqlT::Boolean), f("x", CqlT::Int), f("m", CqlT::BigInt), f("rr", CqlT::Int)];
        let vals = vec![Some(Scalar::Int(1)), Some(Scalar::Boolean(false)), Some(Scalar::Int(99)), Some(Scalar::BigInt(3)), None, Some(Scalar::Text("skipped".into()))];
        out.sample(json!({"struct": describe(e), "op": "serialize row", "db": db_json(&db), "values": mvs_json(&vals), "documented": format!("{:?}", model::predict_ser_row(&e.desc, &db, &vals).tag())}));
        let e = fam_get("r22");
        let db = vec![f("q", CqlT::Int), f("a", CqlT::Text), f("zz", CqlT::BigInt)];
        out.sample(json!({"struct": describe(e), "op": "type_check row", "db": db_json(&db), "documented": format!("{:?}", model::predict_typecheck_row(&e.desc, &db))}));
    }
    for c in REQUIRED {
        out.require_class(c);
    }
    out.exhaustive = Some(!ctx.miri() && !ctx.extra.contains_key("struct"));
    out.note("structs", json!(fam.len()));
    out.note("struct_x_target_items", json!(items.len()));
    out.note("db_lists_total", json!(total_lists));
    out.note("db_lists_in_permutation_space", json!(perm_lists));
    out.note("max_db_fields", json!(max_db));
    out.note(
        "exhaustive_part",
        json!(format!(
            "for each of the {} family structs (x UDT/row where derived): every subset of its fields missing x a fixed family of extra fields (zz, zy, names of skipped fields, Rust identifiers of renamed fields; up to 2 at once) x ALL permutations, at most {max_db} database-side entries; plus type-swapped and repeated-name variants; for each list all null patterns over optional Rust fields (serialization) and over database cells and every truncation length of the UDT value (deserialization); field values random ({} round(s))",
            fam.len(),
            budget.value_rounds
        )),
    );
    out.note(
        "not_asserted",
        json!([
            "N1: SerializeValue with #[scylla(allow_missing)] when reading the (for SerializeValue undocumented) attribute as absent and as 'drop the field the UDT does not contain' disagree",
            "N2: database-side lists with a repeated name for UDT definitions and bind markers (result rows with a repeated column are asserted REJECT by the same-number-of-columns rule)",
            "which of type_check / deserialize reports a documented rejection (only metadata the docs accept must pass type_check)"
        ]),
    );
    out
}
