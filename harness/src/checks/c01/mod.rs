//! C01 — CQL value encoding conforms to the protocol and round-trips.
//!
//! Oracle: `refmodel::cqlenc` (independent encoder/decoder written from the protocol
//! specification). For every generated (type, value):
//!   (1) driver bytes == model bytes (for short tuples/UDTs either of the two encodings the
//!       protocol allows: trailing fields omitted, or explicit nulls),
//!   (2) driver decode of the model bytes == the value, short tuples/UDTs padded with nulls,
//!   (3) driver re-encode of (2) is again an encoding of the value (byte-identical to the
//!       padded model encoding unless the value holds a non-minimal varint, for which the
//!       driver only promises numeric equality).
//! The same through each typed Rust carrier (`carriers.rs`).
use crate::fw::{self, Ctx, Outcome, Rng};
use crate::gen_::cqlgen::{self, Pos, TypeOpts, ValueOpts};
use crate::refmodel::cqlenc::{self as m, MType, MValue};
use bytes::Bytes;
use scylla_cql_core::deserialize::FrameSlice;
use scylla_cql_core::deserialize::value::DeserializeValue;
use scylla_cql_core::frame::response::result::{CollectionType, ColumnType, NativeType, UserDefinedType};
use scylla_cql_core::serialize::row::SerializedValues;
use scylla_cql_core::serialize::value::SerializeValue;
use scylla_cql_core::serialize::writers::CellWriter;
use scylla_cql_core::value::{Counter, CqlDate, CqlDecimal, CqlDuration, CqlTime, CqlTimestamp, CqlTimeuuid, CqlValue, CqlVarint, MaybeUnset, Unset};
use serde_json::json;
use std::net::IpAddr;
use std::sync::Arc;

pub mod carriers;

// ------------------------------------------------------------------ model <-> driver types

pub fn to_col(t: &MType) -> ColumnType<'static> {
    to_col_at(t, false)
}

fn to_col_at(t: &MType, nested: bool) -> ColumnType<'static> {
    use NativeType as N;
    let n = |x| ColumnType::Native(x);
    match t {
        MType::Ascii => n(N::Ascii),
        MType::BigInt => n(N::BigInt),
        MType::Blob => n(N::Blob),
        MType::Boolean => n(N::Boolean),
        MType::Counter => n(N::Counter),
        MType::Date => n(N::Date),
        MType::Decimal => n(N::Decimal),
        MType::Double => n(N::Double),
        MType::Duration => n(N::Duration),
        MType::Float => n(N::Float),
        MType::Inet => n(N::Inet),
        MType::Int => n(N::Int),
        MType::SmallInt => n(N::SmallInt),
        MType::Text => n(N::Text),
        MType::Time => n(N::Time),
        MType::Timestamp => n(N::Timestamp),
        MType::Timeuuid => n(N::Timeuuid),
        MType::TinyInt => n(N::TinyInt),
        MType::Uuid => n(N::Uuid),
        MType::Varint => n(N::Varint),
        MType::List(e) => ColumnType::Collection { frozen: nested, typ: CollectionType::List(Box::new(to_col_at(e, true))) },
        MType::Set(e) => ColumnType::Collection { frozen: nested, typ: CollectionType::Set(Box::new(to_col_at(e, true))) },
        MType::Map(k, v) => ColumnType::Collection { frozen: nested, typ: CollectionType::Map(Box::new(to_col_at(k, true)), Box::new(to_col_at(v, true))) },
        MType::Tuple(fs) => ColumnType::Tuple(fs.iter().map(|f| to_col_at(f, true)).collect()),
        MType::Udt { keyspace, name, fields } => ColumnType::UserDefinedType {
            frozen: nested,
            definition: Arc::new(UserDefinedType {
                name: name.clone().into(),
                keyspace: keyspace.clone().into(),
                field_types: fields.iter().map(|(n, f)| (n.clone().into(), to_col_at(f, true))).collect(),
            }),
        },
        MType::Vector(e, d) => ColumnType::Vector { typ: Box::new(to_col_at(e, true)), dimensions: *d },
    }
}

pub fn inet_of(b: &[u8]) -> Option<IpAddr> {
    match b.len() {
        4 => Some(IpAddr::from(<[u8; 4]>::try_from(b).unwrap())),
        16 => Some(IpAddr::from(<[u8; 16]>::try_from(b).unwrap())),
        _ => None,
    }
}
pub fn inet_bytes(a: &IpAddr) -> Vec<u8> {
    match a {
        IpAddr::V4(x) => x.octets().to_vec(),
        IpAddr::V6(x) => x.octets().to_vec(),
    }
}

/// The dynamic driver value for a model value (`None` for null; unset has no `CqlValue`).
pub fn to_cql(t: &MType, v: &MValue) -> Option<CqlValue> {
    Some(match (t, v) {
        (_, MValue::Null) | (_, MValue::Unset) => return None,
        (_, MValue::Empty) => CqlValue::Empty,
        (_, MValue::Ascii(s)) => CqlValue::Ascii(s.clone()),
        (_, MValue::Text(s)) => CqlValue::Text(s.clone()),
        (_, MValue::Blob(b)) => CqlValue::Blob(b.clone()),
        (_, MValue::Boolean(b)) => CqlValue::Boolean(*b),
        (_, MValue::TinyInt(x)) => CqlValue::TinyInt(*x),
        (_, MValue::SmallInt(x)) => CqlValue::SmallInt(*x),
        (_, MValue::Int(x)) => CqlValue::Int(*x),
        (_, MValue::BigInt(x)) => CqlValue::BigInt(*x),
        (_, MValue::Counter(x)) => CqlValue::Counter(Counter(*x)),
        (_, MValue::Date(x)) => CqlValue::Date(CqlDate(*x)),
        (_, MValue::Time(x)) => CqlValue::Time(CqlTime(*x)),
        (_, MValue::Timestamp(x)) => CqlValue::Timestamp(CqlTimestamp(*x)),
        (_, MValue::Float(b)) => CqlValue::Float(f32::from_bits(*b)),
        (_, MValue::Double(b)) => CqlValue::Double(f64::from_bits(*b)),
        (_, MValue::Uuid(b)) => CqlValue::Uuid(uuid::Uuid::from_bytes(*b)),
        (_, MValue::Timeuuid(b)) => CqlValue::Timeuuid(CqlTimeuuid::from_bytes(*b)),
        (_, MValue::Inet(b)) => CqlValue::Inet(inet_of(b)?),
        (_, MValue::Varint(raw)) => CqlValue::Varint(CqlVarint::from_signed_bytes_be(raw.clone())),
        (_, MValue::Decimal(raw, s)) => CqlValue::Decimal(CqlDecimal::from_signed_be_bytes_and_exponent(raw.clone(), *s)),
        (_, MValue::Duration { months, days, nanos }) => CqlValue::Duration(CqlDuration { months: *months, days: *days, nanoseconds: *nanos }),
        (MType::List(e), MValue::List(xs)) => CqlValue::List(xs.iter().map(|x| to_cql(e, x)).collect::<Option<_>>()?),
        (MType::Set(e), MValue::Set(xs)) => CqlValue::Set(xs.iter().map(|x| to_cql(e, x)).collect::<Option<_>>()?),
        (MType::Vector(e, _), MValue::Vector(xs)) => CqlValue::Vector(xs.iter().map(|x| to_cql(e, x)).collect::<Option<_>>()?),
        (MType::Map(kt, vt), MValue::Map(kvs)) => CqlValue::Map(kvs.iter().map(|(k, x)| Some((to_cql(kt, k)?, to_cql(vt, x)?))).collect::<Option<_>>()?),
        (MType::Tuple(ts), MValue::Tuple(xs)) => CqlValue::Tuple(xs.iter().zip(ts).map(|(x, ft)| to_cql(ft, x)).collect()),
        (MType::Udt { keyspace, name, fields }, MValue::Udt(xs)) => CqlValue::UserDefinedType {
            keyspace: keyspace.clone(),
            name: name.clone(),
            fields: xs.iter().zip(fields).map(|(x, (fname, ft))| (fname.clone(), to_cql(ft, x))).collect(),
        },
        _ => return None,
    })
}

/// An EQUIVALENT dynamic value for the same model value: inside every UDT the fields are named, so
/// they may be given in any order, and a field whose value is null may simply be left out (also in the
/// middle - "a UDT given fewer fields than its type"). Must serialize to the same bytes.
pub fn to_cql_udt_variant(t: &MType, v: &MValue, salt: u64) -> Option<CqlValue> {
    Some(match (t, v) {
        (MType::List(e), MValue::List(xs)) => CqlValue::List(xs.iter().map(|x| to_cql_udt_variant(e, x, salt)).collect::<Option<_>>()?),
        (MType::Set(e), MValue::Set(xs)) => CqlValue::Set(xs.iter().map(|x| to_cql_udt_variant(e, x, salt)).collect::<Option<_>>()?),
        (MType::Vector(e, _), MValue::Vector(xs)) => CqlValue::Vector(xs.iter().map(|x| to_cql_udt_variant(e, x, salt)).collect::<Option<_>>()?),
        (MType::Map(kt, vt), MValue::Map(kvs)) => CqlValue::Map(kvs.iter().map(|(k, x)| Some((to_cql_udt_variant(kt, k, salt)?, to_cql_udt_variant(vt, x, salt)?))).collect::<Option<_>>()?),
        (MType::Tuple(ts), MValue::Tuple(xs)) => CqlValue::Tuple(xs.iter().zip(ts).map(|(x, ft)| to_cql_udt_variant(ft, x, salt)).collect()),
        (MType::Udt { keyspace, name, fields }, MValue::Udt(xs)) => {
            let mut fs: Vec<(String, Option<CqlValue>)> = Vec::new();
            for (i, (x, (fname, ft))) in xs.iter().zip(fields).enumerate() {
                let c = to_cql_udt_variant(ft, x, salt);
                let h = crate::fw::hash64(format!("{salt}:{fname}:{i}").as_bytes());
                if c.is_none() && h % 2 == 0 {
                    continue; // a null field, left out
                }
                fs.push((fname.clone(), c));
            }
            if !fs.is_empty() {
                let r = (salt as usize) % fs.len();
                fs.rotate_left(r);
                if salt % 3 == 0 {
                    fs.reverse();
                }
            }
            CqlValue::UserDefinedType { keyspace: keyspace.clone(), name: name.clone(), fields: fs }
        }
        _ => return to_cql(t, v),
    })
}

fn contains_udt(t: &MType) -> bool {
    match t {
        MType::Udt { .. } => true,
        MType::List(e) | MType::Set(e) | MType::Vector(e, _) => contains_udt(e),
        MType::Map(k, v) => contains_udt(k) || contains_udt(v),
        MType::Tuple(ts) => ts.iter().any(contains_udt),
        _ => false,
    }
}

/// Model image of a driver value read as type `t` (Err = it is not a value of that type).
pub fn from_cql(t: &MType, c: Option<&CqlValue>) -> Result<MValue, String> {
    let Some(c) = c else { return Ok(MValue::Null) };
    Ok(match (t, c) {
        (_, CqlValue::Empty) => MValue::Empty,
        (MType::Ascii, CqlValue::Ascii(s)) => MValue::Ascii(s.clone()),
        (MType::Text, CqlValue::Text(s)) => MValue::Text(s.clone()),
        (MType::Blob, CqlValue::Blob(b)) => MValue::Blob(b.clone()),
        (MType::Boolean, CqlValue::Boolean(b)) => MValue::Boolean(*b),
        (MType::TinyInt, CqlValue::TinyInt(x)) => MValue::TinyInt(*x),
        (MType::SmallInt, CqlValue::SmallInt(x)) => MValue::SmallInt(*x),
        (MType::Int, CqlValue::Int(x)) => MValue::Int(*x),
        (MType::BigInt, CqlValue::BigInt(x)) => MValue::BigInt(*x),
        (MType::Counter, CqlValue::Counter(x)) => MValue::Counter(x.0),
        (MType::Date, CqlValue::Date(x)) => MValue::Date(x.0),
        (MType::Time, CqlValue::Time(x)) => MValue::Time(x.0),
        (MType::Timestamp, CqlValue::Timestamp(x)) => MValue::Timestamp(x.0),
        (MType::Float, CqlValue::Float(x)) => MValue::Float(x.to_bits()),
        (MType::Double, CqlValue::Double(x)) => MValue::Double(x.to_bits()),
        (MType::Uuid, CqlValue::Uuid(u)) => MValue::Uuid(*u.as_bytes()),
        (MType::Timeuuid, CqlValue::Timeuuid(u)) => MValue::Timeuuid(*u.as_bytes()),
        (MType::Inet, CqlValue::Inet(a)) => MValue::Inet(inet_bytes(a)),
        (MType::Varint, CqlValue::Varint(x)) => MValue::Varint(x.as_signed_bytes_be_slice().to_vec()),
        (MType::Decimal, CqlValue::Decimal(d)) => {
            let (raw, s) = d.as_signed_be_bytes_slice_and_exponent();
            MValue::Decimal(raw.to_vec(), s)
        }
        (MType::Duration, CqlValue::Duration(d)) => MValue::Duration { months: d.months, days: d.days, nanos: d.nanoseconds },
        (MType::List(e), CqlValue::List(xs)) => MValue::List(xs.iter().map(|x| from_cql(e, Some(x))).collect::<Result<_, _>>()?),
        (MType::Set(e), CqlValue::Set(xs)) => MValue::Set(xs.iter().map(|x| from_cql(e, Some(x))).collect::<Result<_, _>>()?),
        (MType::Vector(e, _), CqlValue::Vector(xs)) => MValue::Vector(xs.iter().map(|x| from_cql(e, Some(x))).collect::<Result<_, _>>()?),
        (MType::Map(kt, vt), CqlValue::Map(kvs)) => {
            MValue::Map(kvs.iter().map(|(k, x)| Ok::<_, String>((from_cql(kt, Some(k))?, from_cql(vt, Some(x))?))).collect::<Result<_, _>>()?)
        }
        (MType::Tuple(ts), CqlValue::Tuple(xs)) => {
            if xs.len() != ts.len() {
                return Err(format!("tuple value with {} fields for a type with {}", xs.len(), ts.len()));
            }
            MValue::Tuple(xs.iter().zip(ts).map(|(x, ft)| from_cql(ft, x.as_ref())).collect::<Result<_, _>>()?)
        }
        (MType::Udt { keyspace, name, fields }, CqlValue::UserDefinedType { keyspace: k, name: n, fields: xs }) => {
            if k != keyspace || n != name {
                return Err(format!("udt value named {k}.{n} for type {keyspace}.{name}"));
            }
            if xs.len() != fields.len() {
                return Err(format!("udt value with {} fields for a type with {}", xs.len(), fields.len()));
            }
            let mut out = Vec::new();
            for ((xn, x), (fname, ft)) in xs.iter().zip(fields) {
                if xn != fname {
                    return Err(format!("udt field {xn:?} where {fname:?} was expected"));
                }
                out.push(from_cql(ft, x.as_ref())?);
            }
            MValue::Udt(out)
        }
        (t, c) => return Err(format!("{c:?} is not a value of {}", t.name())),
    })
}

// ------------------------------------------------------------------ calling the driver

/// Ok(Ok(bytes)) | Ok(Err(driver error)) | Err(panic message)
pub fn drv_ser<T: SerializeValue + ?Sized>(v: &T, ct: &ColumnType) -> Result<Result<Vec<u8>, String>, String> {
    fw::catch(|| {
        let mut buf = Vec::new();
        let w = CellWriter::new(&mut buf);
        match v.serialize(ct, w) {
            Ok(_) => Ok(buf),
            Err(e) => Err(e.to_string()),
        }
    })
}

/// The binding path: the value added twice to a `SerializedValues`, as written to a request.
pub fn drv_bind_twice<T: SerializeValue>(v: &T, ct: &ColumnType) -> Result<Result<Vec<u8>, String>, String> {
    fw::catch(|| {
        let mut sv = SerializedValues::new();
        sv.add_value(v, ct).map_err(|e| e.to_string())?;
        sv.add_value(v, ct).map_err(|e| e.to_string())?;
        let mut buf = Vec::new();
        sv.write_to_request(&mut buf);
        Ok(buf)
    })
}

pub fn drv_de<'a, T: DeserializeValue<'a, 'a>>(ct: &'a ColumnType<'a>, cell: &'a Bytes) -> Result<Result<T, String>, String> {
    fw::catch(|| {
        T::type_check(ct).map_err(|e| format!("type check: {e}"))?;
        let mut fs = FrameSlice::new(cell);
        let v = fs.read_cql_bytes().map_err(|e| format!("cell: {e}"))?;
        if !fs.is_empty() {
            return Err("harness: cell with trailing bytes".to_string());
        }
        T::deserialize(ct, v).map_err(|e| e.to_string())
    })
}

// ------------------------------------------------------------------ shapes / classes

/// Short structural description used in signatures and coverage classes (no names, no sizes).
pub fn shape(t: &MType, depth: usize) -> String {
    if depth == 0 && !t.is_native() {
        return format!("{}(..)", t.name());
    }
    match t {
        MType::List(e) | MType::Set(e) | MType::Vector(e, _) => format!("{}({})", t.name(), shape(e, depth - 1)),
        MType::Map(k, v) => format!("map({},{})", shape(k, depth - 1), shape(v, depth - 1)),
        MType::Tuple(_) | MType::Udt { .. } => format!("{}(..)", t.name()),
        _ => t.name().to_string(),
    }
}

fn children(t: &MType, v: &MValue) -> Vec<(MType, MValue)> {
    match (t, v) {
        (MType::List(e), MValue::List(xs)) | (MType::Set(e), MValue::Set(xs)) | (MType::Vector(e, _), MValue::Vector(xs)) => xs.iter().map(|x| ((**e).clone(), x.clone())).collect(),
        (MType::Map(kt, vt), MValue::Map(kvs)) => kvs.iter().flat_map(|(k, x)| [((**kt).clone(), k.clone()), ((**vt).clone(), x.clone())]).collect(),
        (MType::Tuple(ts), MValue::Tuple(xs)) => xs.iter().zip(ts).map(|(x, ft)| (ft.clone(), x.clone())).collect(),
        (MType::Udt { fields, .. }, MValue::Udt(xs)) => xs.iter().zip(fields).map(|(x, (_, ft))| (ft.clone(), x.clone())).collect(),
        _ => vec![],
    }
}

/// Input feature: some vector of variable-width elements whose last element has a
/// zero-length encoding (e.g. `vector<text, 2>` = ['a', '']).
pub fn vector_with_empty_last_element(t: &MType, v: &MValue) -> bool {
    if let (MType::Vector(e, _), MValue::Vector(xs)) = (t, v) {
        if e.fixed_len_in_vector().is_none() {
            if let Some(last) = xs.last() {
                if m::encode(e, last).map(|b| b.is_empty()).unwrap_or(false) {
                    return true;
                }
            }
        }
    }
    children(t, v).iter().any(|(ct, cv)| vector_with_empty_last_element(ct, cv))
}

fn record_classes(o: &mut Outcome, t: &MType, v: &MValue, depth: usize) {
    let d = depth.min(5);
    if t.is_native() {
        o.class(&format!("native:{}", t.name()));
        if depth > 0 {
            o.class(&format!("native-nested:{}", t.name()));
        }
    } else {
        o.class(&format!("container:{}@depth{}", t.name(), d));
    }
    match v {
        MValue::Null => o.class(if depth == 0 { "null:top-level" } else { "null:field" }),
        MValue::Unset => o.class("unset:top-level"),
        MValue::Empty => o.class(&format!("empty:{}", if depth == 0 { "top-level" } else { "nested" })),
        _ => {}
    }
    match (t, v) {
        (MType::Tuple(ts), MValue::Tuple(xs)) => {
            if xs.len() < ts.len() {
                o.class("tuple:short");
                if xs.is_empty() {
                    o.class("tuple:no-field-given");
                }
            }
            for (i, x) in xs.iter().enumerate() {
                if *x == MValue::Null {
                    o.class(if i == 0 { "null:tuple-first" } else if i + 1 == xs.len() { "null:tuple-last" } else { "null:tuple-middle" });
                }
            }
        }
        (MType::Udt { fields, .. }, MValue::Udt(xs)) => {
            if xs.len() < fields.len() {
                o.class("udt:short");
            }
            for (i, x) in xs.iter().enumerate() {
                if *x == MValue::Null {
                    o.class(if i == 0 { "null:udt-first" } else if i + 1 == xs.len() { "null:udt-last" } else { "null:udt-middle" });
                }
            }
        }
        (MType::Vector(e, _), MValue::Vector(_)) => {
            o.class(if e.fixed_len_in_vector().is_some() { "vector:fixed-width-elements" } else { "vector:variable-width-elements" });
            if let MType::Vector(..) = **e {
                o.class("vector:of-vector");
            }
            if vector_with_empty_last_element(t, v) {
                o.class("vector:last-element-zero-length");
            }
        }
        (MType::List(_), MValue::List(xs)) | (MType::Set(_), MValue::Set(xs)) => {
            o.class(match xs.len() {
                0 => "collection:len0",
                1 => "collection:len1",
                2..=126 => "collection:len2-126",
                127..=128 => "collection:len127-128",
                _ => "collection:len>128",
            });
        }
        (MType::Map(..), MValue::Map(xs)) => {
            o.class(match xs.len() {
                0 => "map:len0",
                1 => "map:len1",
                2..=126 => "map:len2-126",
                _ => "map:len>=127",
            });
        }
        (MType::Varint, MValue::Varint(raw)) | (MType::Decimal, MValue::Decimal(raw, _)) => {
            if m::varint_normalize(raw) != *raw {
                o.class("varint:non-normalised");
            }
        }
        (MType::Duration, MValue::Duration { months, days, nanos }) => {
            let mut b = Vec::new();
            m::put_uvint(m::zigzag(*nanos), &mut b);
            o.class(&format!("duration:nanos-vint-{}-bytes", b.len()));
            if *months < 0 || *days < 0 || *nanos < 0 {
                o.class("duration:negative");
            }
        }
        (MType::Float, MValue::Float(b)) => {
            if f32::from_bits(*b).is_nan() {
                o.class("float:nan");
            }
        }
        (MType::Double, MValue::Double(b)) => {
            if f64::from_bits(*b).is_nan() {
                o.class("double:nan");
            }
        }
        _ => {}
    }
    if let (MType::Vector(e, _), MValue::Vector(xs)) = (t, v) {
        if e.fixed_len_in_vector().is_none() {
            for x in xs {
                if let Some(b) = m::encode(e, x) {
                    if b.len() >= 128 {
                        o.class("vector:element>=128-bytes");
                    }
                    if b.len() >= 16384 {
                        o.class("vector:element>=16384-bytes");
                    }
                }
            }
        }
    }
    for (ct, cv) in children(t, v) {
        record_classes(o, &ct, &cv, depth + 1);
    }
}

// ------------------------------------------------------------------ the CqlValue check

#[derive(Debug)]
pub struct Failure {
    /// failure class: stable, no values
    pub kind: &'static str,
    pub detail: String,
}

fn fail(kind: &'static str, detail: String) -> Failure {
    Failure { kind, detail }
}

fn hx(b: &[u8]) -> String {
    if b.len() <= 96 { fw::hex(b) } else { format!("{}..({} bytes)", fw::hex(&b[..96]), b.len()) }
}

/// Is `got` (a whole cell) an encoding of `v` that the protocol allows?
fn is_encoding_of(t: &MType, v: &MValue, got: &[u8], exact_numbers: bool) -> Result<(), String> {
    let short = m::encode_cell(t, v).ok_or("harness: model cannot encode the value")?;
    if got == short {
        return Ok(());
    }
    let padded = m::encode_cell_padded(t, v).ok_or("harness: model cannot encode the value")?;
    if got == padded {
        return Ok(());
    }
    // general rule: canonical bytes of a value that reads back as `v` (some short tuples
    // written short and others padded, or - if only numeric equality is promised -
    // varints in another width)
    let first_diff = got.iter().zip(&padded).position(|(a, b)| a != b).unwrap_or(got.len().min(padded.len()));
    let describe = |why: String| format!("{why}; first difference from the model's (padded) bytes at offset {first_diff}: driver {} model {}", hx(got), hx(&padded));
    if matches!(v, MValue::Null | MValue::Unset) {
        return Err(describe("wrong null/unset marker".into()));
    }
    let contents = m::split_cell(got).map_err(|e| describe(format!("not a cell: {e}")))?;
    let raw = m::decode_raw(t, contents).map_err(|e| describe(format!("not decodable as the type: {e}")))?;
    let back = m::encode_cell(t, &raw).ok_or("harness: model cannot re-encode")?;
    if back != got {
        return Err(describe("not a canonical encoding".into()));
    }
    let (a, b) = (m::pad(t, &raw), m::pad(t, v));
    let same = if exact_numbers { a == b } else { m::norm_numbers(&a) == m::norm_numbers(&b) };
    if !same {
        return Err(describe("encodes a different value".into()));
    }
    Ok(())
}

fn ser_top(ct: &ColumnType, t: &MType, v: &MValue) -> Result<Result<Vec<u8>, String>, String> {
    match v {
        MValue::Null => drv_ser(&None::<CqlValue>, ct),
        MValue::Unset => drv_ser(&MaybeUnset::<CqlValue>::Unset, ct),
        _ => match to_cql(t, v) {
            Some(c) => drv_ser(&c, ct),
            None => Ok(Err("harness: value has no CqlValue form".into())),
        },
    }
}

/// All three equations for one (type, value) through the dynamic `CqlValue`.
pub fn cqlvalue_case(t: &MType, v: &MValue) -> Result<(), Failure> {
    let ct = to_col(t);
    // (1) serialization
    let got = match ser_top(&ct, t, v) {
        Err(p) => return Err(fail("ser:panic", p)),
        Ok(Err(e)) => return Err(fail("ser:refused", e)),
        Ok(Ok(b)) => b,
    };
    is_encoding_of(t, v, &got, true).map_err(|e| fail("ser:bytes", e))?;
    // (1b) the same value with UDT fields named in another order and null fields left out
    if contains_udt(t) && !matches!(v, MValue::Null | MValue::Unset | MValue::Empty) {
        let salt = crate::fw::hash64(&got);
        if let Some(c) = to_cql_udt_variant(t, v, salt) {
            match drv_ser(&c, &ct) {
                Err(p) => return Err(fail("ser:panic", format!("UDT fields given out of order / null fields left out: {p}"))),
                Ok(Err(e)) => return Err(fail("ser:refused", format!("UDT fields given out of order / null fields left out ({c:?}): {e}"))),
                Ok(Ok(b)) => is_encoding_of(t, v, &b, true).map_err(|e| fail("ser:bytes:udt-fields-by-name", format!("value given as {c:?}: {e}")))?,
            }
        }
    }
    // binding path: [short n] followed by the n cells
    let bound = match v {
        MValue::Null => drv_bind_twice(&None::<CqlValue>, &ct),
        MValue::Unset => drv_bind_twice(&MaybeUnset::<CqlValue>::Unset, &ct),
        _ => drv_bind_twice(&to_cql(t, v).unwrap(), &ct),
    };
    let mut want_bound = vec![0u8, 2];
    want_bound.extend_from_slice(&got);
    want_bound.extend_from_slice(&got);
    match bound {
        Err(p) => return Err(fail("bind:panic", p)),
        Ok(Err(e)) => return Err(fail("bind:refused", e)),
        Ok(Ok(b)) if b != want_bound => return Err(fail("bind:bytes", format!("two bound values written as {} expected {}", hx(&b), hx(&want_bound)))),
        Ok(Ok(_)) => {}
    }
    if *v == MValue::Unset {
        if let Ok(Ok(b)) = drv_ser(&Unset, &ct) {
            if b != [0xff, 0xff, 0xff, 0xfe] {
                return Err(fail("ser:bytes", format!("Unset serialized as {}", hx(&b))));
            }
        }
        return Ok(()); // not a readable cell
    }
    // (2) deserialization of both legal encodings
    let want = m::pad(t, v);
    let want_n = m::norm_numbers(&want);
    let short = Bytes::from(m::encode_cell(t, v).unwrap());
    let padded = Bytes::from(m::encode_cell_padded(t, v).unwrap());
    let mut inputs = vec![("short", &short)];
    if padded != short {
        inputs.push(("padded", &padded));
    }
    for (which, cell) in inputs {
        let d: Option<CqlValue> = match drv_de::<Option<CqlValue>>(&ct, cell) {
            Err(p) => return Err(fail("de:panic", format!("{p} (input {which}: {})", hx(cell)))),
            Ok(Err(e)) => return Err(fail("de:refused", format!("{e} (input {which}: {})", hx(cell)))),
            Ok(Ok(d)) => d,
        };
        let back = from_cql(t, d.as_ref()).map_err(|e| fail("de:value", format!("{e} (input {which}: {})", hx(cell))))?;
        if m::norm_numbers(&back) != want_n {
            return Err(fail("de:value", format!("decoded {back:?}, expected {want:?} (input {which}: {})", hx(cell))));
        }
        // (3) re-encoding what was decoded
        let re = match d {
            None => drv_ser(&None::<CqlValue>, &ct),
            Some(ref c) => drv_ser(c, &ct),
        };
        let re = match re {
            Err(p) => return Err(fail("reser:panic", p)),
            Ok(Err(e)) => return Err(fail("reser:refused", e)),
            Ok(Ok(b)) => b,
        };
        if m::has_redundant_numbers(v) {
            is_encoding_of(t, v, &re, false).map_err(|e| fail("reser:bytes", e))?;
        } else if re != padded[..] {
            return Err(fail("reser:bytes", format!("re-encoded {} expected {}", hx(&re), hx(&padded))));
        }
    }
    Ok(())
}

/// Descends into the failing case: the smallest sub-(type, value) that still fails alone.
fn minimise(t: &MType, v: &MValue, f: Failure, check: &dyn Fn(&MType, &MValue) -> Result<(), Failure>) -> (MType, MValue, Failure) {
    let (mut t, mut v, mut f) = (t.clone(), v.clone(), f);
    'outer: loop {
        for (ct, cv) in children(&t, &v) {
            if let Err(cf) = check(&ct, &cv) {
                t = ct;
                v = cv;
                f = cf;
                continue 'outer;
            }
        }
        // a shorter vector (of a correspondingly smaller vector type)
        if let (MType::Vector(e, d), MValue::Vector(xs)) = (&t, &v) {
            if *d > 1 && xs.len() == *d as usize {
                let h = xs.len() / 2;
                let cands = [(MType::Vector(e.clone(), (xs.len() - h) as u16), MValue::Vector(xs[h..].to_vec())), (MType::Vector(e.clone(), h as u16), MValue::Vector(xs[..h].to_vec()))];
                for (nt, nv) in cands {
                    if let Err(cf) = check(&nt, &nv) {
                        t = nt;
                        v = nv;
                        f = cf;
                        continue 'outer;
                    }
                }
            }
        }
        // fewer elements of the same container
        let halves: Vec<MValue> = match &v {
            MValue::List(xs) if xs.len() > 1 => vec![MValue::List(xs[..xs.len() / 2].to_vec()), MValue::List(xs[xs.len() / 2..].to_vec())],
            MValue::Set(xs) if xs.len() > 1 => vec![MValue::Set(xs[..xs.len() / 2].to_vec()), MValue::Set(xs[xs.len() / 2..].to_vec())],
            MValue::Map(xs) if xs.len() > 1 => vec![MValue::Map(xs[..xs.len() / 2].to_vec()), MValue::Map(xs[xs.len() / 2..].to_vec())],
            _ => vec![],
        };
        for nv in halves {
            if let Err(cf) = check(&t, &nv) {
                v = nv;
                f = cf;
                continue 'outer;
            }
        }
        return (t, v, f);
    }
}

fn report(o: &mut Outcome, entry: &str, t: &MType, v: &MValue, f: Failure, check: &dyn Fn(&MType, &MValue) -> Result<(), Failure>) {
    let (mt, mv, mf) = minimise(t, v, f, check);
    let special = match &mv {
        MValue::Null => ":null",
        MValue::Unset => ":unset",
        MValue::Empty => ":empty",
        MValue::Tuple(xs) if xs.is_empty() => ":no-field-given",
        _ => "",
    };
    let sig = if mf.kind.starts_with("de:") && vector_with_empty_last_element(&mt, &mv) {
        format!("{entry}:{}:vector:last-element-zero-length", mf.kind)
    } else {
        format!("{entry}:{}:{}{}", mf.kind, shape(&mt, 1), special)
    };
    let vs = format!("{mv:?}");
    let vs = if vs.len() > 600 { format!("{}..", &vs[..vs.char_indices().take_while(|(i, _)| *i < 600).last().map(|(i, _)| i).unwrap_or(0)]) } else { vs };
    o.violation(
        sig,
        format!("{entry}: type {mt:?}, value {vs}: {}", mf.detail),
        json!({"entry": entry, "type": mt, "value": mv, "original_type": t, "original_value": v}),
    );
}

// ------------------------------------------------------------------ decode-only inputs

/// Encodings that a conforming writer would not choose but a reader must accept.
fn decode_only_cases(o: &mut Outcome, rng: &mut Rng) {
    // boolean: "0 denotes false, any other value denotes true"
    let ct = to_col(&MType::Boolean);
    for b in [2u8, 0x7f, 0x80, 0xff, rng.range(2, 255) as u8] {
        let cell = Bytes::from(vec![0, 0, 0, 1, b]);
        o.case(fw::hash64(&cell), true);
        o.class("decode-only:boolean-nonzero-byte");
        match drv_de::<CqlValue>(&ct, &cell) {
            Ok(Ok(CqlValue::Boolean(true))) => {}
            other => o.violation("cqlvalue:de:boolean-nonzero-byte", format!("boolean byte {b:#04x} decoded as {other:?}, expected true"), json!({"entry":"decode-only","bytes": fw::hex(&cell)})),
        }
        match drv_de::<bool>(&ct, &cell) {
            Ok(Ok(true)) => {}
            other => o.violation("carrier:bool:de:boolean-nonzero-byte", format!("boolean byte {b:#04x} decoded as {other:?}, expected true"), json!({"entry":"decode-only","bytes": fw::hex(&cell)})),
        }
    }
}

/// Carriers finer than the column's resolution. A CQL `timestamp` counts milliseconds; `chrono::DateTime`
/// and `time::OffsetDateTime` carry nanoseconds. The encoding of such a value is the instant the
/// carrier's own calendar fields show down to the millisecond (digits below are dropped, so an instant
/// before 1970 goes to the millisecond below it, never to the one above). The expectation is built
/// from the model value `ms`; the carrier is `ms` plus 1..999 999 ns.
fn subresolution_cases(o: &mut Outcome, rng: &mut Rng, n: usize) {
    let t = MType::Timestamp;
    let ct = to_col(&t);
    let pool: [i64; 14] = [0, -1, 1, -999, -1000, -1001, 999, 1000, -86_400_000, -86_400_001, 1_700_000_000_123, -62_135_596_800_000, 253_402_300_799_998, -1_700_000_000_001];
    for i in 0..n {
        let ms = if i < pool.len() { pool[i] } else if rng.chance(1, 2) { rng.range(-5_000, 5_000) } else { rng.range(-62_135_596_800_000, 253_402_300_799_998) };
        let sub = match i % 4 {
            0 => 1,
            1 => 999_999,
            2 => 500_000,
            _ => rng.range(1, 999_999),
        };
        let Some(expect) = m::encode_cell(&t, &MValue::Timestamp(ms)) else {
            o.inconclusive("model cannot encode a timestamp");
            return;
        };
        let replay = json!({"entry": "subresolution", "ms": ms, "sub_ns": sub});
        if let Ok(odt) = time::OffsetDateTime::from_unix_timestamp_nanos(ms as i128 * 1_000_000 + sub as i128) {
            // the expectation restated through the carrier's own calendar fields
            if odt.unix_timestamp() * 1000 + odt.millisecond() as i64 != ms {
                o.inconclusive(format!("time::OffsetDateTime calendar fields disagree with the model at {ms} ms + {sub} ns"));
                return;
            }
            o.case(fw::hash64(format!("subms-time|{ms}|{sub}").as_bytes()), true);
            o.class("carrier-subms:time::OffsetDateTime");
            o.class(if ms < 0 { "carrier-subms:before-1970" } else { "carrier-subms:from-1970" });
            match drv_ser(&odt, &ct) {
                Ok(Ok(b)) if b == expect => {}
                other => o.violation(
                    "carrier:time::OffsetDateTime:ser:sub-millisecond",
                    format!("{odt} (= {ms} ms + {sub} ns) bound to timestamp gives {}, expected {} ({ms} ms)", match &other { Ok(Ok(b)) => hx(b), x => format!("{x:?}") }, hx(&expect)),
                    replay.clone(),
                ),
            }
        }
        let (secs, nanos) = (ms.div_euclid(1000), (ms.rem_euclid(1000) * 1_000_000 + sub) as u32);
        if let Some(dt) = chrono::DateTime::<chrono::Utc>::from_timestamp(secs, nanos) {
            if dt.timestamp() * 1000 + dt.timestamp_subsec_millis() as i64 != ms {
                o.inconclusive(format!("chrono::DateTime calendar fields disagree with the model at {ms} ms + {sub} ns"));
                return;
            }
            o.case(fw::hash64(format!("subms-chrono|{ms}|{sub}").as_bytes()), true);
            o.class("carrier-subms:chrono::DateTime<Utc>");
            match drv_ser(&dt, &ct) {
                Ok(Ok(b)) if b == expect => {}
                other => o.violation(
                    "carrier:chrono::DateTime<Utc>:ser:sub-millisecond",
                    format!("{dt} (= {ms} ms + {sub} ns) bound to timestamp gives {}, expected {} ({ms} ms)", match &other { Ok(Ok(b)) => hx(b), x => format!("{x:?}") }, hx(&expect)),
                    replay.clone(),
                ),
            }
        }
    }
}

// ------------------------------------------------------------------ run

fn value_opts(ctx: &Ctx) -> ValueOpts {
    ValueOpts {
        redundant_varints: true,
        budget: if ctx.miri() { 40 } else { 400 },
        zero_field_tuples: ctx.extra.get("zero_field_tuples").map(|s| s != "0").unwrap_or(true),
    }
}

fn replay(ctx: &Ctx, path: &str) -> Outcome {
    let mut o = Outcome::new();
    let text = std::fs::read_to_string(path).expect("replay file");
    let j: serde_json::Value = serde_json::from_str(&text).expect("json");
    let r = &j["replay"];
    let entry = r["entry"].as_str().unwrap_or("");
    if entry == "decode-only" {
        decode_only_cases(&mut o, &mut ctx.rng(0));
        return o;
    }
    if entry == "subresolution" {
        subresolution_cases(&mut o, &mut ctx.rng(0), 4000);
        return o;
    }
    let (Ok(t), Ok(v)) = (serde_json::from_value::<MType>(r["type"].clone()), serde_json::from_value::<MValue>(r["value"].clone())) else {
        o.inconclusive("unrecognised replay file");
        return o;
    };
    if entry == "cqlvalue" {
        one_dynamic(&mut o, &t, &v);
    } else if let Some(name) = entry.strip_prefix("carrier:") {
        if !carriers::replay_one(&mut o, name, &t, &v) {
            o.inconclusive(format!("unknown carrier {name}"));
        }
    } else {
        o.inconclusive("unrecognised replay entry");
    }
    o
}

pub fn run(ctx: &Ctx) -> Outcome {
    if let Some(p) = &ctx.replay {
        return replay(ctx, p);
    }
    let mut pre = Outcome::new();
    if let Err(e) = m::self_test() {
        pre.inconclusive(format!("reference model self-test failed: {e}"));
        return pre;
    }
    let workers = ctx.workers;
    let total = if ctx.miri() { 100 } else { ctx.vol(120_000, 6_000_000) };
    let carrier_rounds = if ctx.miri() { 1 } else { ctx.vol(600, 40_000) };
    let max_depth = if ctx.quick() { 3 } else { 5 };
    let vo = value_opts(ctx);
    let only = ctx.part.clone();
    let do_dyn = only.as_deref().map(|p| p == "cqlvalue").unwrap_or(true);
    let do_car = only.as_deref().map(|p| p == "carriers").unwrap_or(true);

    let mut out = fw::par(ctx, workers, |w, mut rng| {
        let mut o = Outcome::new();
        if do_dyn {
            if w == 0 {
                decode_only_cases(&mut o, &mut rng);
                literal_samples(&mut o);
            }
            // every native on its own, every boundary position
            for t in m::NATIVES.iter() {
                for _ in 0..(if ctx.miri() { 2 } else { 200 }) {
                    let v = cqlgen::gen_value(&mut rng, t, Pos::Top, &vo);
                    one_dynamic(&mut o, t, &v);
                }
            }
            let n = total / workers as u64;
            for i in 0..n {
                let depth = 1 + (i as usize % max_depth);
                let t = cqlgen::gen_type(&mut rng, TypeOpts { max_depth: depth, top_level: true });
                // several values per type
                for _ in 0..3 {
                    let v = cqlgen::gen_value(&mut rng, &t, Pos::Top, &vo);
                    one_dynamic(&mut o, &t, &v);
                }
            }
        }
        if do_car {
            if w == 0 {
                subresolution_cases(&mut o, &mut rng, if ctx.miri() { 20 } else { 4000 });
            }
            let n = (carrier_rounds / workers as u64).max(1);
            for _ in 0..n {
                carriers::run_catalogue(&mut o, &mut rng);
            }
        }
        o
    });
    if do_dyn {
        for t in m::NATIVES.iter() {
            out.require_class(&format!("native:{}", t.name()));
            if *t != MType::Counter {
                out.require_class(&format!("native-nested:{}", t.name()));
            }
        }
        for k in ["list", "set", "map", "tuple", "udt", "vector"] {
            for d in 0..max_depth {
                out.require_class(&format!("container:{k}@depth{d}"));
            }
        }
        for c in [
            "null:top-level",
            "null:tuple-first",
            "null:tuple-middle",
            "null:tuple-last",
            "null:udt-first",
            "null:udt-middle",
            "null:udt-last",
            "unset:top-level",
            "empty:top-level",
            "empty:nested",
            "tuple:short",
            "udt:short",
            "vector:fixed-width-elements",
            "vector:variable-width-elements",
            "vector:of-vector",
            "vector:element>=128-bytes",
            "collection:len0",
            "collection:len127-128",
            "collection:len>128",
            "map:len0",
            "varint:non-normalised",
            "duration:negative",
            "float:nan",
            "double:nan",
            "decode-only:boolean-nonzero-byte",
        ] {
            out.require_class(c);
        }
        for b in 1..=9 {
            out.require_class(&format!("duration:nanos-vint-{b}-bytes"));
        }
    }
    if do_car {
        for name in carriers::names() {
            out.require_class(&format!("carrier:{name}"));
        }
        for c in ["carrier-subms:time::OffsetDateTime", "carrier-subms:chrono::DateTime<Utc>", "carrier-subms:before-1970", "carrier-subms:from-1970"] {
            out.require_class(c);
        }
    }
    out.exhaustive = Some(false);
    out.note("max_type_depth", json!(max_depth));
    out
}

fn one_dynamic(o: &mut Outcome, t: &MType, v: &MValue) {
    let key = fw::hash64(format!("{t:?}|{v:?}").as_bytes());
    let trivial = t.is_native() && matches!(v, MValue::Null | MValue::Unset);
    // the oracle must be able to state the expectation, and agree with itself
    let Some(cell) = m::encode_cell(t, v) else {
        o.inconclusive(format!("generator produced a value the model cannot encode: {t:?} {v:?}"));
        return;
    };
    if *v != MValue::Unset {
        let back = m::split_cell(&cell).and_then(|c| m::decode(t, c));
        if back.as_ref() != Ok(&m::pad(t, v)) {
            o.inconclusive(format!("reference model does not round-trip {t:?} {v:?}: {back:?}"));
            return;
        }
    }
    o.case(key, !trivial);
    record_classes(o, t, v, 0);
    if let Err(f) = cqlvalue_case(t, v) {
        report(o, "cqlvalue", t, v, f, &cqlvalue_case);
    }
}

fn literal_samples(o: &mut Outcome) {
    let samples: Vec<(MType, MValue)> = vec![
        (MType::Duration, MValue::Duration { months: -1, days: -2147483648, nanos: i64::MIN }),
        (
            MType::Vector(Box::new(MType::SmallInt), 2),
            MValue::Vector(vec![MValue::SmallInt(-2), MValue::SmallInt(258)]),
        ),
        (
            MType::Map(Box::new(MType::Text), Box::new(MType::Tuple(vec![MType::Int, MType::Varint, MType::Double]))),
            MValue::Map(vec![(MValue::Text("k".into()), MValue::Tuple(vec![MValue::Null, MValue::Varint(vec![0, 0, 0x80])]))]),
        ),
        (
            MType::Udt { keyspace: "ks".into(), name: "t".into(), fields: vec![("a".into(), MType::Int), ("b".into(), MType::List(Box::new(MType::Float))), ("c".into(), MType::Inet)] },
            MValue::Udt(vec![MValue::Empty]),
        ),
    ];
    for (t, v) in samples {
        let cell = m::encode_cell(&t, &v).map(|b| fw::hex(&b));
        let padded = m::encode_cell_padded(&t, &v).map(|b| fw::hex(&b));
        let res = cqlvalue_case(&t, &v);
        o.sample(json!({"type": format!("{t:?}"), "value": format!("{v:?}"), "model_cell": cell, "model_cell_padded": padded, "verdict": match &res { Ok(()) => "all three equations hold".to_string(), Err(f) => format!("{}: {}", f.kind, f.detail) }}));
        one_dynamic(o, &t, &v);
    }
}
