//! C01, typed carriers: every concrete Rust type the driver offers for a CQL type must
//! serialize to the model's bytes for the equivalent model value and deserialize the
//! model's bytes to an equal value.
//!
//! `Carrier` is the harness-side bridge between a Rust type and the model value; the
//! conversions use only the third-party crates' own constructors/accessors (chrono, time,
//! num-bigint, bigdecimal, uuid, std::net), never the driver's conversion code.
use super::{Failure, drv_de, drv_ser, fail, hx, inet_bytes, inet_of, shape, to_col};
use crate::fw::{self, Outcome, Rng};
use crate::gen_::cqlgen;
use crate::refmodel::cqlenc::{self as m, MType, MValue};
use bytes::Bytes;
use scylla_cql_core::deserialize::value::DeserializeValue;
use scylla_cql_core::frame::response::result::ColumnType;
use scylla_cql_core::serialize::value::SerializeValue;
use scylla_cql_core::value::{
    Counter, CqlDate, CqlDecimal, CqlDecimalBorrowed, CqlDuration, CqlTime, CqlTimestamp, CqlTimeuuid, CqlVarint, CqlVarintBorrowed, Emptiable, MaybeEmpty, MaybeUnset,
};
use serde_json::json;
use std::borrow::Cow;
use std::collections::{BTreeMap, BTreeSet, HashMap, HashSet};
use std::net::IpAddr;
use std::sync::Arc;

static NULL: MValue = MValue::Null;
type DrvCounter = Counter;

pub trait Carrier<'a>: Sized {
    /// can stand for a null (so a tuple may omit it when it is a trailing field)
    const NULLABLE: bool = false;
    /// iteration order of the carrier is unspecified: bytes compared as multisets
    const SER_UNORDERED: bool = false;
    /// the carrier does not keep the wire order: decoded values compared as multisets
    const DE_UNORDERED: bool = false;
    /// column types the carrier can be bound to
    fn accepts(t: &MType) -> bool;
    /// column types the carrier can be read from
    fn accepts_de(t: &MType) -> bool {
        Self::accepts(t)
    }
    /// a model value of type `t` that the carrier can represent
    fn gen_(rng: &mut Rng, t: &MType) -> MValue;
    fn from_model(t: &'a MType, v: &'a MValue) -> Option<Self>;
    fn to_model(&self, t: &MType) -> MValue;
}

// ------------------------------------------------------------------ scalars

macro_rules! scalar {
    ($ty:ty, [$($mt:ident),+], redundant=$red:expr, |$t0:ident, $v:ident| $from:expr, |$s:ident, $t:ident| $to:expr) => {
        scalar!($ty, [$($mt),+], gen=|rng, t| cqlgen::gen_native_value(rng, t, $red), |$t0, $v| $from, |$s, $t| $to);
    };
    ($ty:ty, [$($mt:ident),+], gen=|$rng:ident, $tg:ident| $gen:expr, |$t0:ident, $v:ident| $from:expr, |$s:ident, $t:ident| $to:expr) => {
        impl<'a> Carrier<'a> for $ty {
            fn accepts(t: &MType) -> bool {
                matches!(t, $(MType::$mt)|+)
            }
            #[allow(unused_variables)]
            fn gen_($rng: &mut Rng, $tg: &MType) -> MValue {
                $gen
            }
            #[allow(unused_variables)]
            fn from_model($t0: &'a MType, $v: &'a MValue) -> Option<Self> {
                $from
            }
            #[allow(unused_variables)]
            fn to_model(&self, $t: &MType) -> MValue {
                let $s = self;
                $to
            }
        }
    };
}

macro_rules! get {
    ($v:ident, $var:ident) => {
        match $v {
            MValue::$var(x) => Some(x),
            _ => None,
        }
    };
}

scalar!(i8, [TinyInt], redundant = false, |t, v| get!(v, TinyInt).copied(), |s, t| MValue::TinyInt(*s));
scalar!(i16, [SmallInt], redundant = false, |t, v| get!(v, SmallInt).copied(), |s, t| MValue::SmallInt(*s));
scalar!(i32, [Int], redundant = false, |t, v| get!(v, Int).copied(), |s, t| MValue::Int(*s));
scalar!(i64, [BigInt], redundant = false, |t, v| get!(v, BigInt).copied(), |s, t| MValue::BigInt(*s));
scalar!(f32, [Float], redundant = false, |t, v| get!(v, Float).map(|b| f32::from_bits(*b)), |s, t| MValue::Float(s.to_bits()));
scalar!(f64, [Double], redundant = false, |t, v| get!(v, Double).map(|b| f64::from_bits(*b)), |s, t| MValue::Double(s.to_bits()));
scalar!(bool, [Boolean], redundant = false, |t, v| get!(v, Boolean).copied(), |s, t| MValue::Boolean(*s));
scalar!(Counter, [Counter], redundant = false, |t, v| get!(v, Counter).map(|x| Counter(*x)), |s, t| MValue::Counter(s.0));
scalar!(CqlDate, [Date], redundant = false, |t, v| get!(v, Date).map(|x| CqlDate(*x)), |s, t| MValue::Date(s.0));
scalar!(CqlTime, [Time], redundant = false, |t, v| get!(v, Time).map(|x| CqlTime(*x)), |s, t| MValue::Time(s.0));
scalar!(CqlTimestamp, [Timestamp], redundant = false, |t, v| get!(v, Timestamp).map(|x| CqlTimestamp(*x)), |s, t| MValue::Timestamp(s.0));
scalar!(
    CqlDuration,
    [Duration],
    redundant = false,
    |t, v| match v {
        MValue::Duration { months, days, nanos } => Some(CqlDuration { months: *months, days: *days, nanoseconds: *nanos }),
        _ => None,
    },
    |s, t| MValue::Duration { months: s.months, days: s.days, nanos: s.nanoseconds }
);
scalar!(uuid::Uuid, [Uuid], redundant = false, |t, v| get!(v, Uuid).map(|b| uuid::Uuid::from_bytes(*b)), |s, t| MValue::Uuid(*s.as_bytes()));
scalar!(CqlTimeuuid, [Timeuuid], redundant = false, |t, v| get!(v, Timeuuid).map(|b| CqlTimeuuid::from_bytes(*b)), |s, t| MValue::Timeuuid(*s.as_bytes()));
scalar!(IpAddr, [Inet], redundant = false, |t, v| get!(v, Inet).and_then(|b| inet_of(b)), |s, t| MValue::Inet(inet_bytes(s)));

fn text_model(t: &MType, s: &str) -> MValue {
    if matches!(t, MType::Ascii) { MValue::Ascii(s.to_string()) } else { MValue::Text(s.to_string()) }
}
fn text_of(v: &MValue) -> Option<&str> {
    match v {
        MValue::Ascii(s) | MValue::Text(s) => Some(s.as_str()),
        _ => None,
    }
}
scalar!(String, [Ascii, Text], redundant = false, |t, v| text_of(v).map(|s| s.to_string()), |s, t| text_model(t, s));
scalar!(&'a str, [Ascii, Text], redundant = false, |t, v| text_of(v), |s, t| text_model(t, s));
scalar!(Box<str>, [Ascii, Text], redundant = false, |t, v| text_of(v).map(|s| s.into()), |s, t| text_model(t, s));
scalar!(Arc<str>, [Ascii, Text], redundant = false, |t, v| text_of(v).map(|s| s.into()), |s, t| text_model(t, s));
scalar!(Cow<'a, str>, [Ascii, Text], redundant = false, |t, v| text_of(v).map(Cow::Borrowed), |s, t| text_model(t, s));
scalar!(Vec<u8>, [Blob], redundant = false, |t, v| get!(v, Blob).cloned(), |s, t| MValue::Blob(s.clone()));
scalar!(&'a [u8], [Blob], redundant = false, |t, v| get!(v, Blob).map(|b| b.as_slice()), |s, t| MValue::Blob(s.to_vec()));
scalar!(Bytes, [Blob], redundant = false, |t, v| get!(v, Blob).map(|b| Bytes::copy_from_slice(b)), |s, t| MValue::Blob(s.to_vec()));

scalar!(CqlVarint, [Varint], redundant = true, |t, v| get!(v, Varint).map(|b| CqlVarint::from_signed_bytes_be_slice(b)), |s, t| MValue::Varint(s.as_signed_bytes_be_slice().to_vec()));
scalar!(CqlVarintBorrowed<'a>, [Varint], redundant = true, |t, v| get!(v, Varint).map(|b| CqlVarintBorrowed::from_signed_bytes_be_slice(b)), |s, t| MValue::Varint(
    s.as_signed_bytes_be_slice().to_vec()
));
scalar!(
    CqlDecimal,
    [Decimal],
    redundant = true,
    |t, v| match v {
        MValue::Decimal(raw, sc) => Some(CqlDecimal::from_signed_be_bytes_slice_and_exponent(raw, *sc)),
        _ => None,
    },
    |s, t| {
        let (raw, sc) = s.as_signed_be_bytes_slice_and_exponent();
        MValue::Decimal(raw.to_vec(), sc)
    }
);
scalar!(
    CqlDecimalBorrowed<'a>,
    [Decimal],
    redundant = true,
    |t, v| match v {
        MValue::Decimal(raw, sc) => Some(CqlDecimalBorrowed::from_signed_be_bytes_slice_and_exponent(raw, *sc)),
        _ => None,
    },
    |s, t| {
        let (raw, sc) = s.as_signed_be_bytes_slice_and_exponent();
        MValue::Decimal(raw.to_vec(), sc)
    }
);
scalar!(num_bigint_03::BigInt, [Varint], redundant = true, |t, v| get!(v, Varint).map(|b| num_bigint_03::BigInt::from_signed_bytes_be(b)), |s, t| MValue::Varint(s.to_signed_bytes_be()));
scalar!(num_bigint_04::BigInt, [Varint], redundant = true, |t, v| get!(v, Varint).map(|b| num_bigint_04::BigInt::from_signed_bytes_be(b)), |s, t| MValue::Varint(s.to_signed_bytes_be()));
scalar!(
    bigdecimal::BigDecimal,
    [Decimal],
    redundant = true,
    |t, v| match v {
        MValue::Decimal(raw, sc) => Some(bigdecimal::BigDecimal::new(bigdecimal::num_bigint::BigInt::from_signed_bytes_be(raw), *sc as i64)),
        _ => None,
    },
    |s, t| {
        let (bi, sc) = s.as_bigint_and_exponent();
        MValue::Decimal(bi.to_signed_bytes_be(), sc as i32)
    }
);

// chrono / time: only the part of the CQL range the library type can hold is generated
const EPOCH_CE: i64 = 719_163; // 1970-01-01 in days from 0001-01-01 = day 1
const EPOCH_JULIAN: i64 = 2_440_588;
const DATE_CENTER: i64 = 1 << 31;

fn pick_in(rng: &mut Rng, lo: i64, hi: i64, pool: &[i64]) -> i64 {
    if rng.chance(1, 2) {
        let c = *rng.pick(pool);
        if c >= lo && c <= hi {
            return c;
        }
    }
    match rng.below(4) {
        0 => lo,
        1 => hi,
        _ => rng.range(lo, hi),
    }
}

scalar!(
    chrono::NaiveDate,
    [Date],
    gen = |rng, t| {
        use chrono::Datelike;
        let lo = chrono::NaiveDate::MIN.num_days_from_ce() as i64 - EPOCH_CE;
        let hi = chrono::NaiveDate::MAX.num_days_from_ce() as i64 - EPOCH_CE;
        MValue::Date((pick_in(rng, lo, hi, &[0, -1, 1, 19_000, -719_162, 2_932_896, lo + 1, hi - 1]) + DATE_CENTER) as u32)
    },
    |t, v| get!(v, Date).and_then(|x| chrono::NaiveDate::from_num_days_from_ce_opt(i32::try_from(*x as i64 - DATE_CENTER + EPOCH_CE).ok()?)),
    |s, t| {
        use chrono::Datelike;
        MValue::Date((s.num_days_from_ce() as i64 - EPOCH_CE + DATE_CENTER) as u32)
    }
);
scalar!(
    chrono::NaiveTime,
    [Time],
    redundant = false,
    |t, v| get!(v, Time).and_then(|x| chrono::NaiveTime::from_num_seconds_from_midnight_opt(u32::try_from(*x / 1_000_000_000).ok()?, (*x % 1_000_000_000) as u32)),
    |s, t| {
        use chrono::Timelike;
        MValue::Time(s.num_seconds_from_midnight() as i64 * 1_000_000_000 + s.nanosecond() as i64)
    }
);
scalar!(
    chrono::DateTime<chrono::Utc>,
    [Timestamp],
    gen = |rng, t| {
        let lo = chrono::DateTime::<chrono::Utc>::MIN_UTC.timestamp_millis();
        let hi = chrono::DateTime::<chrono::Utc>::MAX_UTC.timestamp_millis();
        MValue::Timestamp(pick_in(rng, lo, hi, &[0, -1, 1, 999, 1000, -999, -1000, -1001, 1_700_000_000_123, 253_402_300_799_999, -62_135_596_800_000, lo + 1, hi - 1]))
    },
    |t, v| get!(v, Timestamp).and_then(|x| chrono::DateTime::<chrono::Utc>::from_timestamp_millis(*x)),
    |s, t| MValue::Timestamp(s.timestamp_millis())
);
scalar!(
    time::Date,
    [Date],
    gen = |rng, t| {
        let lo = time::Date::MIN.to_julian_day() as i64 - EPOCH_JULIAN;
        let hi = time::Date::MAX.to_julian_day() as i64 - EPOCH_JULIAN;
        MValue::Date((pick_in(rng, lo, hi, &[0, -1, 1, 19_000, -719_162, 2_932_896, lo + 1, hi - 1]) + DATE_CENTER) as u32)
    },
    |t, v| get!(v, Date).and_then(|x| time::Date::from_julian_day(i32::try_from(*x as i64 - DATE_CENTER + EPOCH_JULIAN).ok()?).ok()),
    |s, t| MValue::Date((s.to_julian_day() as i64 - EPOCH_JULIAN + DATE_CENTER) as u32)
);
scalar!(
    time::Time,
    [Time],
    redundant = false,
    |t, v| get!(v, Time).and_then(|x| {
        let secs = *x / 1_000_000_000;
        time::Time::from_hms_nano(u8::try_from(secs / 3600).ok()?, (secs / 60 % 60) as u8, (secs % 60) as u8, (*x % 1_000_000_000) as u32).ok()
    }),
    |s, t| {
        let (h, mi, sec, n) = s.as_hms_nano();
        MValue::Time((h as i64 * 3600 + mi as i64 * 60 + sec as i64) * 1_000_000_000 + n as i64)
    }
);
scalar!(
    time::OffsetDateTime,
    [Timestamp],
    gen = |rng, t| {
        let lo = time::Date::MIN.midnight().assume_utc().unix_timestamp() * 1000;
        let hi = time::Date::MAX.midnight().assume_utc().unix_timestamp() * 1000 + 86_399_999;
        MValue::Timestamp(pick_in(rng, lo, hi, &[0, -1, 1, 999, 1000, -999, -1000, -1001, 1_700_000_000_123, 253_402_300_799_999, -62_135_596_800_000, lo + 1, hi - 1]))
    },
    |t, v| get!(v, Timestamp).and_then(|x| time::OffsetDateTime::from_unix_timestamp_nanos(*x as i128 * 1_000_000).ok()),
    |s, t| MValue::Timestamp(s.unix_timestamp_nanos().div_euclid(1_000_000) as i64)
);

// ------------------------------------------------------------------ wrappers

macro_rules! delegating {
    (impl[$($gen:tt)*] $ty:ty => $inner:ty, |$x:ident| $wrap:expr, |$s:ident| $unwrap:expr) => {
        impl<'a, $($gen)*> Carrier<'a> for $ty {
            const NULLABLE: bool = <$inner as Carrier<'a>>::NULLABLE;
            const SER_UNORDERED: bool = <$inner as Carrier<'a>>::SER_UNORDERED;
            const DE_UNORDERED: bool = <$inner as Carrier<'a>>::DE_UNORDERED;
            fn accepts(t: &MType) -> bool {
                <$inner as Carrier<'a>>::accepts(t)
            }
            fn accepts_de(t: &MType) -> bool {
                <$inner as Carrier<'a>>::accepts_de(t)
            }
            fn gen_(rng: &mut Rng, t: &MType) -> MValue {
                <$inner as Carrier<'a>>::gen_(rng, t)
            }
            fn from_model(t: &'a MType, v: &'a MValue) -> Option<Self> {
                let $x = <$inner as Carrier<'a>>::from_model(t, v)?;
                Some($wrap)
            }
            fn to_model(&self, t: &MType) -> MValue {
                let $s = self;
                <$inner as Carrier<'a>>::to_model($unwrap, t)
            }
        }
    };
}

delegating!(impl[T: Carrier<'a>] Box<T> => T, |x| Box::new(x), |s| &**s);
delegating!(impl[T: Carrier<'a>] Arc<T> => T, |x| Arc::new(x), |s| &**s);
delegating!(impl[T: Carrier<'a> + secrecy_08::Zeroize] secrecy_08::Secret<T> => T, |x| secrecy_08::Secret::new(x), |s| secrecy_08::ExposeSecret::expose_secret(s));
delegating!(impl[T: Carrier<'a> + secrecy_10::zeroize::Zeroize] secrecy_10::SecretBox<T> => T, |x| secrecy_10::SecretBox::new(Box::new(x)), |s| secrecy_10::ExposeSecret::expose_secret(s));

impl<'a> Carrier<'a> for secrecy_10::SecretString {
    fn accepts(t: &MType) -> bool {
        String::accepts(t)
    }
    fn gen_(rng: &mut Rng, t: &MType) -> MValue {
        String::gen_(rng, t)
    }
    fn from_model(_t: &'a MType, v: &'a MValue) -> Option<Self> {
        text_of(v).map(|s| secrecy_10::SecretString::from(s.to_string()))
    }
    fn to_model(&self, t: &MType) -> MValue {
        text_model(t, secrecy_10::ExposeSecret::expose_secret(self))
    }
}

impl<'a, T: Carrier<'a>> Carrier<'a> for Option<T> {
    const NULLABLE: bool = true;
    const SER_UNORDERED: bool = T::SER_UNORDERED;
    const DE_UNORDERED: bool = T::DE_UNORDERED;
    fn accepts(t: &MType) -> bool {
        T::accepts(t)
    }
    fn accepts_de(t: &MType) -> bool {
        T::accepts_de(t)
    }
    fn gen_(rng: &mut Rng, t: &MType) -> MValue {
        if rng.chance(1, 4) { MValue::Null } else { T::gen_(rng, t) }
    }
    fn from_model(t: &'a MType, v: &'a MValue) -> Option<Self> {
        match v {
            MValue::Null => Some(None),
            _ => Some(Some(T::from_model(t, v)?)),
        }
    }
    fn to_model(&self, t: &MType) -> MValue {
        match self {
            None => MValue::Null,
            Some(x) => x.to_model(t),
        }
    }
}

impl<'a, T: Carrier<'a>> Carrier<'a> for MaybeUnset<T> {
    const SER_UNORDERED: bool = T::SER_UNORDERED;
    fn accepts(t: &MType) -> bool {
        T::accepts(t)
    }
    fn gen_(rng: &mut Rng, t: &MType) -> MValue {
        if rng.chance(1, 3) { MValue::Unset } else { T::gen_(rng, t) }
    }
    fn from_model(t: &'a MType, v: &'a MValue) -> Option<Self> {
        match v {
            MValue::Unset => Some(MaybeUnset::Unset),
            _ => Some(MaybeUnset::Set(T::from_model(t, v)?)),
        }
    }
    fn to_model(&self, t: &MType) -> MValue {
        match self {
            MaybeUnset::Unset => MValue::Unset,
            MaybeUnset::Set(x) => x.to_model(t),
        }
    }
}

impl<'a, T: Carrier<'a> + Emptiable> Carrier<'a> for MaybeEmpty<T> {
    fn accepts(t: &MType) -> bool {
        T::accepts(t)
    }
    fn gen_(rng: &mut Rng, t: &MType) -> MValue {
        if t.emptiable() && rng.chance(1, 3) { MValue::Empty } else { T::gen_(rng, t) }
    }
    fn from_model(t: &'a MType, v: &'a MValue) -> Option<Self> {
        match v {
            MValue::Empty => Some(MaybeEmpty::Empty),
            _ => Some(MaybeEmpty::Value(T::from_model(t, v)?)),
        }
    }
    fn to_model(&self, t: &MType) -> MValue {
        match self {
            MaybeEmpty::Empty => MValue::Empty,
            MaybeEmpty::Value(x) => x.to_model(t),
        }
    }
}

// ------------------------------------------------------------------ collections

fn seq_len(rng: &mut Rng) -> usize {
    match rng.below(12) {
        0 => 0,
        1 => 1,
        2 => *rng.pick(&[127usize, 128, 129, 300]),
        _ => rng.usize(2, 6),
    }
}

fn distinct(t: &MType, xs: Vec<MValue>) -> Vec<MValue> {
    let mut seen = HashSet::new();
    xs.into_iter().filter(|x| seen.insert(m::encode_cell(t, &m::pad(t, &m::norm_numbers(x))))).collect()
}

impl<'a, T: Carrier<'a>> Carrier<'a> for Vec<T> {
    const SER_UNORDERED: bool = T::SER_UNORDERED;
    const DE_UNORDERED: bool = T::DE_UNORDERED;
    fn accepts(t: &MType) -> bool {
        match t {
            MType::List(e) | MType::Set(e) | MType::Vector(e, _) => T::accepts(e),
            _ => false,
        }
    }
    fn accepts_de(t: &MType) -> bool {
        match t {
            MType::List(e) | MType::Set(e) | MType::Vector(e, _) => T::accepts_de(e),
            _ => false,
        }
    }
    fn gen_(rng: &mut Rng, t: &MType) -> MValue {
        match t {
            MType::List(e) => MValue::List((0..seq_len(rng)).map(|_| T::gen_(rng, e)).collect()),
            MType::Set(e) => MValue::Set(distinct(e, (0..seq_len(rng)).map(|_| T::gen_(rng, e)).collect())),
            MType::Vector(e, d) => MValue::Vector((0..*d).map(|_| T::gen_(rng, e)).collect()),
            _ => MValue::Null,
        }
    }
    fn from_model(t: &'a MType, v: &'a MValue) -> Option<Self> {
        match (t, v) {
            (MType::List(e), MValue::List(xs)) | (MType::Set(e), MValue::Set(xs)) | (MType::Vector(e, _), MValue::Vector(xs)) => xs.iter().map(|x| T::from_model(e, x)).collect(),
            _ => None,
        }
    }
    fn to_model(&self, t: &MType) -> MValue {
        match t {
            MType::List(e) => MValue::List(self.iter().map(|x| x.to_model(e)).collect()),
            MType::Set(e) => MValue::Set(self.iter().map(|x| x.to_model(e)).collect()),
            MType::Vector(e, _) => MValue::Vector(self.iter().map(|x| x.to_model(e)).collect()),
            _ => MValue::Null,
        }
    }
}

impl<'a, S: Carrier<'a> + secrecy_10::zeroize::Zeroize> Carrier<'a> for secrecy_10::SecretSlice<S>
where
    [S]: secrecy_10::zeroize::Zeroize,
{
    fn accepts(t: &MType) -> bool {
        Vec::<S>::accepts(t)
    }
    fn gen_(rng: &mut Rng, t: &MType) -> MValue {
        Vec::<S>::gen_(rng, t)
    }
    fn from_model(t: &'a MType, v: &'a MValue) -> Option<Self> {
        Vec::<S>::from_model(t, v).map(secrecy_10::SecretSlice::from)
    }
    fn to_model(&self, t: &MType) -> MValue {
        let s: &[S] = secrecy_10::ExposeSecret::expose_secret(self);
        match t {
            MType::List(e) => MValue::List(s.iter().map(|x| x.to_model(e)).collect()),
            MType::Set(e) => MValue::Set(s.iter().map(|x| x.to_model(e)).collect()),
            MType::Vector(e, _) => MValue::Vector(s.iter().map(|x| x.to_model(e)).collect()),
            _ => MValue::Null,
        }
    }
}

macro_rules! set_carrier {
    ($set:ident, [$($bound:tt)*], $ser_unordered:expr) => {
        impl<'a, T: Carrier<'a> + $($bound)*> Carrier<'a> for $set<T> {
            const SER_UNORDERED: bool = $ser_unordered || T::SER_UNORDERED;
            const DE_UNORDERED: bool = true;
            fn accepts(t: &MType) -> bool {
                matches!(t, MType::Set(e) if T::accepts(e))
            }
            fn accepts_de(t: &MType) -> bool {
                matches!(t, MType::Set(e) if T::accepts_de(e))
            }
            fn gen_(rng: &mut Rng, t: &MType) -> MValue {
                match t {
                    MType::Set(e) => MValue::Set(distinct(e, (0..seq_len(rng)).map(|_| T::gen_(rng, e)).collect())),
                    _ => MValue::Null,
                }
            }
            fn from_model(t: &'a MType, v: &'a MValue) -> Option<Self> {
                match (t, v) {
                    (MType::Set(e), MValue::Set(xs)) => xs.iter().map(|x| T::from_model(e, x)).collect(),
                    _ => None,
                }
            }
            fn to_model(&self, t: &MType) -> MValue {
                match t {
                    MType::Set(e) => MValue::Set(self.iter().map(|x| x.to_model(e)).collect()),
                    _ => MValue::Null,
                }
            }
        }
    };
}
set_carrier!(HashSet, [Eq + std::hash::Hash], true);
set_carrier!(BTreeSet, [Ord], false);

macro_rules! map_carrier {
    ($map:ident, [$($bound:tt)*], $ser_unordered:expr) => {
        impl<'a, K: Carrier<'a> + $($bound)*, V: Carrier<'a>> Carrier<'a> for $map<K, V> {
            const SER_UNORDERED: bool = $ser_unordered || K::SER_UNORDERED || V::SER_UNORDERED;
            const DE_UNORDERED: bool = true;
            fn accepts(t: &MType) -> bool {
                matches!(t, MType::Map(k, v) if K::accepts(k) && V::accepts(v))
            }
            fn accepts_de(t: &MType) -> bool {
                matches!(t, MType::Map(k, v) if K::accepts_de(k) && V::accepts_de(v))
            }
            fn gen_(rng: &mut Rng, t: &MType) -> MValue {
                match t {
                    MType::Map(kt, vt) => {
                        let ks = distinct(kt, (0..seq_len(rng)).map(|_| K::gen_(rng, kt)).collect());
                        MValue::Map(ks.into_iter().map(|k| (k, V::gen_(rng, vt))).collect())
                    }
                    _ => MValue::Null,
                }
            }
            fn from_model(t: &'a MType, v: &'a MValue) -> Option<Self> {
                match (t, v) {
                    (MType::Map(kt, vt), MValue::Map(kvs)) => kvs.iter().map(|(k, x)| Some((K::from_model(kt, k)?, V::from_model(vt, x)?))).collect(),
                    _ => None,
                }
            }
            fn to_model(&self, t: &MType) -> MValue {
                match t {
                    MType::Map(kt, vt) => MValue::Map(self.iter().map(|(k, x)| (k.to_model(kt), x.to_model(vt))).collect()),
                    _ => MValue::Null,
                }
            }
        }
    };
}
map_carrier!(HashMap, [Eq + std::hash::Hash], true);
map_carrier!(BTreeMap, [Ord], false);

// ------------------------------------------------------------------ tuples

macro_rules! tuple_carrier {
    ($n:expr; $($T:ident $i:tt),+) => {
        impl<'a, $($T: Carrier<'a>),+> Carrier<'a> for ($($T,)+) {
            const SER_UNORDERED: bool = false $(|| $T::SER_UNORDERED)+;
            const DE_UNORDERED: bool = false $(|| $T::DE_UNORDERED)+;
            fn accepts(t: &MType) -> bool {
                match t {
                    // a Rust tuple may be shorter than the CQL tuple (the rest is not sent)
                    MType::Tuple(ts) => ts.len() >= $n $(&& $T::accepts(&ts[$i]))+,
                    _ => false,
                }
            }
            fn accepts_de(t: &MType) -> bool {
                match t {
                    MType::Tuple(ts) => ts.len() == $n $(&& $T::accepts_de(&ts[$i]))+,
                    _ => false,
                }
            }
            fn gen_(rng: &mut Rng, t: &MType) -> MValue {
                let MType::Tuple(ts) = t else { return MValue::Null };
                let nullable = [$($T::NULLABLE),+];
                // trailing nullable fields may be left off the wire
                let mut given = $n;
                while given > 0 && nullable[given - 1] && rng.chance(1, 4) {
                    given -= 1;
                }
                let all = vec![$($T::gen_(rng, &ts[$i])),+];
                MValue::Tuple(all.into_iter().take(given).collect())
            }
            fn from_model(t: &'a MType, v: &'a MValue) -> Option<Self> {
                let (MType::Tuple(ts), MValue::Tuple(xs)) = (t, v) else { return None };
                if xs.len() > $n || ts.len() < $n {
                    return None;
                }
                Some(($($T::from_model(&ts[$i], xs.get($i).unwrap_or(&NULL))?,)+))
            }
            fn to_model(&self, t: &MType) -> MValue {
                let MType::Tuple(ts) = t else { return MValue::Null };
                MValue::Tuple(vec![$(self.$i.to_model(&ts[$i])),+])
            }
        }
    };
}
tuple_carrier!(1; A 0);
tuple_carrier!(2; A 0, B 1);
tuple_carrier!(3; A 0, B 1, C 2);
tuple_carrier!(4; A 0, B 1, C 2, D 3);
tuple_carrier!(5; A 0, B 1, C 2, D 3, E 4);
tuple_carrier!(6; A 0, B 1, C 2, D 3, E 4, F 5);
tuple_carrier!(8; A 0, B 1, C 2, D 3, E 4, F 5, G 6, H 7);
tuple_carrier!(12; A 0, B 1, C 2, D 3, E 4, F 5, G 6, H 7, I 8, J 9, K 10, L 11);
tuple_carrier!(16; A 0, B 1, C 2, D 3, E 4, F 5, G 6, H 7, I 8, J 9, K 10, L 11, M 12, N 13, O 14, P 15);

// ------------------------------------------------------------------ the checks

fn sem_eq(t: &MType, a: &MValue, b: &MValue, unordered: bool) -> bool {
    let (a, b) = (m::norm_numbers(a), m::norm_numbers(b));
    if unordered { m::canon_unordered(t, &a) == m::canon_unordered(t, &b) } else { a == b }
}

/// driver bytes of `c` against the model's bytes for `c.to_model()`
fn ser_check<'a, T: Carrier<'a> + SerializeValue>(c: &T, t: &MType, ct: &ColumnType, stage: &'static str) -> Result<(), Failure> {
    let (k_panic, k_refused, k_bytes): (&'static str, &'static str, &'static str) =
        if stage == "ser" { ("ser:panic", "ser:refused", "ser:bytes") } else { ("reser:panic", "reser:refused", "reser:bytes") };
    let ev = c.to_model(t);
    let want = m::encode_cell(t, &ev).ok_or_else(|| fail("harness", format!("model cannot encode {ev:?} as {t:?}")))?;
    let got = match drv_ser(c, ct) {
        Err(p) => return Err(fail(k_panic, p)),
        Ok(Err(e)) => return Err(fail(k_refused, e)),
        Ok(Ok(b)) => b,
    };
    if got != want {
        let mut ok = false;
        if T::SER_UNORDERED && got.len() == want.len() {
            // same multiset of encoded elements, canonical bytes
            if let Ok(Ok(raw)) = m::split_cell(&got).map(|c| m::decode_raw(t, c)) {
                ok = m::encode_cell(t, &raw).as_deref() == Some(&got[..]) && m::canon_unordered(t, &raw) == m::canon_unordered(t, &ev);
            }
        }
        if !ok {
            let at = got.iter().zip(&want).position(|(a, b)| a != b).unwrap_or(got.len().min(want.len()));
            return Err(fail(k_bytes, format!("first difference at offset {at}: driver {} model {}", hx(&got), hx(&want))));
        }
    }
    // the same value behind a shared reference
    match drv_ser::<&T>(&c, ct) {
        Ok(Ok(b)) if b == got || T::SER_UNORDERED => {}
        other => return Err(fail("ser:by-reference", format!("&T serialized differently from T: {other:?}"))),
    }
    Ok(())
}

pub fn carrier_case<'a, T>(t: &'a MType, ct: &'a ColumnType<'a>, v: &'a MValue, cell: &'a Bytes, de: bool) -> Result<(), Failure>
where
    T: Carrier<'a> + SerializeValue + DeserializeValue<'a, 'a>,
{
    let c = T::from_model(t, v).ok_or_else(|| fail("harness", format!("carrier cannot hold {v:?}")))?;
    if !sem_eq(t, &m::pad(t, &c.to_model(t)), &m::pad(t, v), T::DE_UNORDERED) {
        // A hashed / ordered collection of a type whose equality, hash or order the driver itself defines
        // (CqlVarint, CqlVarintBorrowed, CqlTimeuuid): the model's elements are pairwise different numbers /
        // version-1 timeuuids, so a collection that merges two of them loses data the caller asked to send
        // (and would lose it on decoding as well) - the driver's doing, not the harness's.
        let tn = std::any::type_name::<T>();
        let keyed = ["HashSet<", "BTreeSet<", "HashMap<", "BTreeMap<"].iter().any(|k| tn.contains(k));
        if keyed && ["CqlVarint", "CqlTimeuuid"].iter().any(|k| tn.contains(k)) {
            return Err(fail("carrier:distinct-values-merged", format!("{tn} built from the pairwise different values {v:?} holds only {:?}", c.to_model(t))));
        }
        return Err(fail("harness", format!("carrier conversion is not faithful: {v:?} -> {:?}", c.to_model(t))));
    }
    ser_check(&c, t, ct, "ser")?;
    if !de || !T::accepts_de(t) {
        return Ok(());
    }
    let d: T = match drv_de::<T>(ct, cell) {
        Err(p) => return Err(fail("de:panic", format!("{p} (input {})", hx(cell)))),
        Ok(Err(e)) => return Err(fail("de:refused", format!("{e} (input {})", hx(cell)))),
        Ok(Ok(d)) => d,
    };
    let back = d.to_model(t);
    let want = m::pad(t, v);
    if !sem_eq(t, &back, &want, T::DE_UNORDERED) {
        return Err(fail("de:value", format!("decoded {back:?}, expected {want:?} (input {})", hx(cell))));
    }
    ser_check(&d, t, ct, "reser")
}

pub fn carrier_ser_case<'a, T>(t: &'a MType, ct: &'a ColumnType<'a>, v: &'a MValue) -> Result<(), Failure>
where
    T: Carrier<'a> + SerializeValue,
{
    let c = T::from_model(t, v).ok_or_else(|| fail("harness", format!("carrier cannot hold {v:?}")))?;
    ser_check(&c, t, ct, "ser")
}

fn lst(e: MType) -> MType {
    MType::List(Box::new(e))
}
fn set(e: MType) -> MType {
    MType::Set(Box::new(e))
}
fn map(k: MType, v: MType) -> MType {
    MType::Map(Box::new(k), Box::new(v))
}
fn vct(e: MType, d: u16) -> MType {
    MType::Vector(Box::new(e), d)
}
fn tup(fs: &[MType]) -> MType {
    MType::Tuple(fs.to_vec())
}

/// The catalogue: `$cb!(name, kind, Type, [column types])`, kind = full | ser.
macro_rules! for_each_carrier {
    ($cb:ident!($($pre:tt)*)) => {{
        #[allow(unused_imports)]
        use MType::*;
        // fixed-width natives
        $cb!($($pre)* "i8", full, i8, [TinyInt]);
        $cb!($($pre)* "i16", full, i16, [SmallInt]);
        $cb!($($pre)* "i32", full, i32, [Int]);
        $cb!($($pre)* "i64", full, i64, [BigInt]);
        $cb!($($pre)* "f32", full, f32, [Float]);
        $cb!($($pre)* "f64", full, f64, [Double]);
        $cb!($($pre)* "bool", full, bool, [Boolean]);
        // text
        $cb!($($pre)* "String", full, String, [Text, Ascii]);
        $cb!($($pre)* "&str", full, &str, [Text, Ascii]);
        $cb!($($pre)* "Box<str>", full, Box<str>, [Text, Ascii]);
        $cb!($($pre)* "Arc<str>", full, Arc<str>, [Text, Ascii]);
        $cb!($($pre)* "Cow<str>", full, Cow<str>, [Text, Ascii]);
        // blobs
        $cb!($($pre)* "Vec<u8>", full, Vec<u8>, [Blob]);
        $cb!($($pre)* "&[u8]", full, &[u8], [Blob]);
        $cb!($($pre)* "Bytes", full, Bytes, [Blob]);
        // inet, uuids
        $cb!($($pre)* "IpAddr", full, IpAddr, [Inet]);
        $cb!($($pre)* "Uuid", full, uuid::Uuid, [Uuid]);
        $cb!($($pre)* "CqlTimeuuid", full, CqlTimeuuid, [Timeuuid]);
        // temporal
        $cb!($($pre)* "CqlDate", full, CqlDate, [Date]);
        $cb!($($pre)* "CqlTime", full, CqlTime, [Time]);
        $cb!($($pre)* "CqlTimestamp", full, CqlTimestamp, [Timestamp]);
        $cb!($($pre)* "CqlDuration", full, CqlDuration, [Duration]);
        $cb!($($pre)* "chrono::NaiveDate", full, chrono::NaiveDate, [Date]);
        $cb!($($pre)* "chrono::NaiveTime", full, chrono::NaiveTime, [Time]);
        $cb!($($pre)* "chrono::DateTime<Utc>", full, chrono::DateTime<chrono::Utc>, [Timestamp]);
        $cb!($($pre)* "time::Date", full, time::Date, [Date]);
        $cb!($($pre)* "time::Time", full, time::Time, [Time]);
        $cb!($($pre)* "time::OffsetDateTime", full, time::OffsetDateTime, [Timestamp]);
        // numbers of arbitrary size
        $cb!($($pre)* "Counter", full, DrvCounter, [Counter]);
        $cb!($($pre)* "CqlVarint", full, CqlVarint, [Varint]);
        $cb!($($pre)* "CqlVarintBorrowed", full, CqlVarintBorrowed, [Varint]);
        $cb!($($pre)* "CqlDecimal", full, CqlDecimal, [Decimal]);
        $cb!($($pre)* "CqlDecimalBorrowed", full, CqlDecimalBorrowed, [Decimal]);
        $cb!($($pre)* "num_bigint_03::BigInt", full, num_bigint_03::BigInt, [Varint]);
        $cb!($($pre)* "num_bigint_04::BigInt", full, num_bigint_04::BigInt, [Varint]);
        $cb!($($pre)* "bigdecimal::BigDecimal", full, bigdecimal::BigDecimal, [Decimal]);
        // secrecy
        $cb!($($pre)* "secrecy_08::Secret<String>", full, secrecy_08::Secret<String>, [Text, Ascii]);
        $cb!($($pre)* "secrecy_08::Secret<i64>", full, secrecy_08::Secret<i64>, [BigInt]);
        $cb!($($pre)* "secrecy_08::Secret<Vec<u8>>", full, secrecy_08::Secret<Vec<u8>>, [Blob]);
        $cb!($($pre)* "secrecy_10::SecretBox<i32>", full, secrecy_10::SecretBox<i32>, [Int]);
        $cb!($($pre)* "secrecy_10::SecretString", full, secrecy_10::SecretString, [Text, Ascii]);
        $cb!($($pre)* "secrecy_10::SecretSlice<i16>", full, secrecy_10::SecretSlice<i16>, [lst(SmallInt), set(SmallInt), vct(SmallInt, 3)]);
        // null / unset / empty wrappers
        $cb!($($pre)* "Option<i32>", full, Option<i32>, [Int]);
        $cb!($($pre)* "Option<String>", full, Option<String>, [Text, Ascii]);
        $cb!($($pre)* "Option<CqlDuration>", full, Option<CqlDuration>, [Duration]);
        $cb!($($pre)* "Option<Vec<f32>>", full, Option<Vec<f32>>, [lst(Float), vct(Float, 4)]);
        $cb!($($pre)* "Option<Option<i64>>", full, Option<Option<i64>>, [BigInt]);
        $cb!($($pre)* "MaybeUnset<i32>", ser, MaybeUnset<i32>, [Int]);
        $cb!($($pre)* "MaybeUnset<Option<&str>>", ser, MaybeUnset<Option<&str>>, [Text]);
        $cb!($($pre)* "MaybeUnset<Vec<i64>>", ser, MaybeUnset<Vec<i64>>, [lst(BigInt)]);
        $cb!($($pre)* "MaybeEmpty<i8>", full, MaybeEmpty<i8>, [TinyInt]);
        $cb!($($pre)* "MaybeEmpty<i16>", full, MaybeEmpty<i16>, [SmallInt]);
        $cb!($($pre)* "MaybeEmpty<i32>", full, MaybeEmpty<i32>, [Int]);
        $cb!($($pre)* "MaybeEmpty<i64>", full, MaybeEmpty<i64>, [BigInt]);
        $cb!($($pre)* "MaybeEmpty<f32>", full, MaybeEmpty<f32>, [Float]);
        $cb!($($pre)* "MaybeEmpty<f64>", full, MaybeEmpty<f64>, [Double]);
        $cb!($($pre)* "MaybeEmpty<bool>", full, MaybeEmpty<bool>, [Boolean]);
        $cb!($($pre)* "MaybeEmpty<Uuid>", full, MaybeEmpty<uuid::Uuid>, [Uuid]);
        $cb!($($pre)* "MaybeEmpty<CqlTimeuuid>", full, MaybeEmpty<CqlTimeuuid>, [Timeuuid]);
        $cb!($($pre)* "MaybeEmpty<IpAddr>", full, MaybeEmpty<IpAddr>, [Inet]);
        $cb!($($pre)* "MaybeEmpty<CqlDate>", full, MaybeEmpty<CqlDate>, [Date]);
        $cb!($($pre)* "MaybeEmpty<CqlTime>", full, MaybeEmpty<CqlTime>, [Time]);
        $cb!($($pre)* "MaybeEmpty<CqlTimestamp>", full, MaybeEmpty<CqlTimestamp>, [Timestamp]);
        $cb!($($pre)* "MaybeEmpty<CqlVarint>", full, MaybeEmpty<CqlVarint>, [Varint]);
        $cb!($($pre)* "MaybeEmpty<CqlDecimal>", full, MaybeEmpty<CqlDecimal>, [Decimal]);
        $cb!($($pre)* "MaybeEmpty<num_bigint_04::BigInt>", full, MaybeEmpty<num_bigint_04::BigInt>, [Varint]);
        $cb!($($pre)* "MaybeEmpty<chrono::NaiveDate>", full, MaybeEmpty<chrono::NaiveDate>, [Date]);
        $cb!($($pre)* "MaybeEmpty<time::OffsetDateTime>", full, MaybeEmpty<time::OffsetDateTime>, [Timestamp]);
        $cb!($($pre)* "Option<MaybeEmpty<i32>>", full, Option<MaybeEmpty<i32>>, [Int]);
        // smart pointers
        $cb!($($pre)* "Box<i32>", full, Box<i32>, [Int]);
        $cb!($($pre)* "Arc<String>", full, Arc<String>, [Text]);
        $cb!($($pre)* "Box<Vec<Arc<f64>>>", full, Box<Vec<Arc<f64>>>, [lst(Double), vct(Double, 2)]);
        // sequences
        $cb!($($pre)* "Vec<i32>", full, Vec<i32>, [lst(Int), set(Int), vct(Int, 1), vct(Int, 5), vct(Int, 130)]);
        $cb!($($pre)* "Vec<f32>", full, Vec<f32>, [lst(Float), vct(Float, 3), vct(Float, 1536)]);
        $cb!($($pre)* "Vec<i64>", full, Vec<i64>, [lst(BigInt), set(BigInt), vct(BigInt, 2)]);
        $cb!($($pre)* "Vec<i16>", full, Vec<i16>, [lst(SmallInt), vct(SmallInt, 3)]);
        $cb!($($pre)* "Vec<i8>", full, Vec<i8>, [lst(TinyInt), vct(TinyInt, 4)]);
        $cb!($($pre)* "Vec<bool>", full, Vec<bool>, [lst(Boolean), vct(Boolean, 9)]);
        $cb!($($pre)* "Vec<Uuid>", full, Vec<uuid::Uuid>, [set(Uuid), vct(Uuid, 2)]);
        $cb!($($pre)* "Vec<CqlTimeuuid>", full, Vec<CqlTimeuuid>, [lst(Timeuuid), vct(Timeuuid, 2)]);
        $cb!($($pre)* "Vec<CqlTimestamp>", full, Vec<CqlTimestamp>, [lst(Timestamp), vct(Timestamp, 3)]);
        $cb!($($pre)* "Vec<CqlDate>", full, Vec<CqlDate>, [lst(Date), vct(Date, 3)]);
        $cb!($($pre)* "Vec<CqlTime>", full, Vec<CqlTime>, [set(Time), vct(Time, 2)]);
        $cb!($($pre)* "Vec<CqlDuration>", full, Vec<CqlDuration>, [lst(Duration), vct(Duration, 3)]);
        $cb!($($pre)* "Vec<IpAddr>", full, Vec<IpAddr>, [lst(Inet), vct(Inet, 3)]);
        $cb!($($pre)* "Vec<String>", full, Vec<String>, [lst(Text), set(Ascii), vct(Text, 3)]);
        $cb!($($pre)* "Vec<&str>", full, Vec<&str>, [lst(Text), vct(Ascii, 2)]);
        $cb!($($pre)* "Vec<Vec<u8>>", full, Vec<Vec<u8>>, [lst(Blob), vct(Blob, 2)]);
        $cb!($($pre)* "Vec<CqlVarint>", full, Vec<CqlVarint>, [lst(Varint), vct(Varint, 3)]);
        $cb!($($pre)* "Vec<CqlDecimal>", full, Vec<CqlDecimal>, [set(Decimal), vct(Decimal, 2)]);
        $cb!($($pre)* "Vec<num_bigint_03::BigInt>", full, Vec<num_bigint_03::BigInt>, [lst(Varint), vct(Varint, 2)]);
        $cb!($($pre)* "Vec<MaybeEmpty<i32>>", full, Vec<MaybeEmpty<i32>>, [lst(Int), set(Int)]);
        $cb!($($pre)* "Vec<Vec<i32>>", full, Vec<Vec<i32>>, [lst(lst(Int)), lst(vct(Int, 2)), vct(vct(Int, 2), 3), vct(lst(Int), 2), set(set(Int))]);
        $cb!($($pre)* "Vec<Vec<String>>", full, Vec<Vec<String>>, [lst(lst(Text)), vct(vct(Text, 2), 2), vct(lst(Ascii), 3)]);
        $cb!($($pre)* "Vec<Vec<Vec<f64>>>", full, Vec<Vec<Vec<f64>>>, [lst(lst(lst(Double))), vct(vct(vct(Double, 2), 2), 2), lst(vct(lst(Double), 2))]);
        $cb!($($pre)* "Vec<(i32, Option<String>)>", full, Vec<(i32, Option<String>)>, [lst(tup(&[Int, Text])), vct(tup(&[Int, Ascii]), 2)]);
        $cb!($($pre)* "Vec<HashMap<i32, String>>", full, Vec<HashMap<i32, String>>, [lst(map(Int, Text)), vct(map(Int, Text), 2)]);
        // sets
        $cb!($($pre)* "HashSet<i32>", full, HashSet<i32>, [set(Int)]);
        $cb!($($pre)* "HashSet<String>", full, HashSet<String>, [set(Text), set(Ascii)]);
        $cb!($($pre)* "HashSet<Uuid>", full, HashSet<uuid::Uuid>, [set(Uuid)]);
        $cb!($($pre)* "HashSet<&str>", full, HashSet<&str>, [set(Text)]);
        $cb!($($pre)* "HashSet<(i64, Option<bool>)>", full, HashSet<(i64, Option<bool>)>, [set(tup(&[BigInt, Boolean]))]);
        $cb!($($pre)* "HashSet<CqlVarint>", full, HashSet<CqlVarint>, [set(Varint)]);
        $cb!($($pre)* "HashSet<CqlVarintBorrowed>", full, HashSet<CqlVarintBorrowed>, [set(Varint)]);
        $cb!($($pre)* "HashSet<CqlTimeuuid>", full, HashSet<CqlTimeuuid>, [set(Timeuuid)]);
        $cb!($($pre)* "BTreeSet<CqlTimeuuid>", full, BTreeSet<CqlTimeuuid>, [set(Timeuuid)]);
        $cb!($($pre)* "BTreeSet<i64>", full, BTreeSet<i64>, [set(BigInt)]);
        $cb!($($pre)* "BTreeSet<String>", full, BTreeSet<String>, [set(Text)]);
        $cb!($($pre)* "BTreeSet<Vec<u8>>", full, BTreeSet<Vec<u8>>, [set(Blob)]);
        $cb!($($pre)* "BTreeSet<Vec<i16>>", full, BTreeSet<Vec<i16>>, [set(lst(SmallInt)), set(vct(SmallInt, 2))]);
        // maps
        $cb!($($pre)* "HashMap<String, i32>", full, HashMap<String, i32>, [map(Text, Int), map(Ascii, Int)]);
        $cb!($($pre)* "HashMap<i32, Vec<String>>", full, HashMap<i32, Vec<String>>, [map(Int, lst(Text)), map(Int, vct(Text, 2))]);
        $cb!($($pre)* "HashMap<Uuid, HashMap<i8, f64>>", full, HashMap<uuid::Uuid, HashMap<i8, f64>>, [map(Uuid, map(TinyInt, Double))]);
        $cb!($($pre)* "HashMap<&str, (i32, Option<f32>)>", full, HashMap<&str, (i32, Option<f32>)>, [map(Text, tup(&[Int, Float]))]);
        $cb!($($pre)* "HashMap<CqlVarint, i32>", full, HashMap<CqlVarint, i32>, [map(Varint, Int)]);
        $cb!($($pre)* "BTreeMap<i64, f64>", full, BTreeMap<i64, f64>, [map(BigInt, Double)]);
        $cb!($($pre)* "BTreeMap<String, CqlVarint>", full, BTreeMap<String, CqlVarint>, [map(Text, Varint)]);
        $cb!($($pre)* "BTreeMap<i32, BTreeSet<i32>>", full, BTreeMap<i32, BTreeSet<i32>>, [map(Int, set(Int))]);
        $cb!($($pre)* "BTreeMap<i16, MaybeEmpty<i64>>", full, BTreeMap<i16, MaybeEmpty<i64>>, [map(SmallInt, BigInt)]);
        // tuples
        $cb!($($pre)* "(i32,)", full, (i32,), [tup(&[Int]), tup(&[Int, Text]), tup(&[Int, Text, Double])]);
        $cb!($($pre)* "(i32, String)", full, (i32, String), [tup(&[Int, Text]), tup(&[Int, Ascii, Blob])]);
        $cb!($($pre)* "(Option<i32>, Option<String>)", full, (Option<i32>, Option<String>), [tup(&[Int, Text])]);
        $cb!($($pre)* "(Option<f64>, Option<Vec<i32>>, Option<(i8, Option<i8>)>)", full, (Option<f64>, Option<Vec<i32>>, Option<(i8, Option<i8>)>), [tup(&[Double, lst(Int), tup(&[TinyInt, TinyInt])]), tup(&[Double, vct(Int, 2), tup(&[TinyInt, TinyInt])])]);
        $cb!($($pre)* "(String, MaybeEmpty<i32>, Option<CqlDuration>, Option<IpAddr>)", full, (String, MaybeEmpty<i32>, Option<CqlDuration>, Option<IpAddr>), [tup(&[Text, Int, Duration, Inet])]);
        $cb!($($pre)* "(i8, i16, i32, i64, f32)", full, (i8, i16, i32, i64, f32), [tup(&[TinyInt, SmallInt, Int, BigInt, Float])]);
        $cb!($($pre)* "tuple6", full, (Option<i8>, Option<i16>, Option<i32>, Option<i64>, Option<f32>, Option<f64>), [tup(&[TinyInt, SmallInt, Int, BigInt, Float, Double])]);
        $cb!($($pre)* "tuple8", full, (bool, Option<String>, uuid::Uuid, Option<CqlTimeuuid>, CqlDate, Option<CqlTime>, CqlTimestamp, Option<Vec<u8>>), [tup(&[Boolean, Text, Uuid, Timeuuid, Date, Time, Timestamp, Blob])]);
        $cb!($($pre)* "tuple12", full, (i32, Option<i32>, i32, Option<i32>, i32, Option<i32>, i32, Option<i32>, i32, Option<i32>, Option<i32>, Option<i32>), [tup(&[Int, Int, Int, Int, Int, Int, Int, Int, Int, Int, Int, Int])]);
        $cb!($($pre)* "tuple16", full, (i64, Option<String>, Option<i64>, String, i64, Option<String>, Option<i64>, String, i64, Option<String>, Option<i64>, String, i64, Option<String>, Option<i64>, Option<String>), [tup(&[BigInt, Text, BigInt, Text, BigInt, Text, BigInt, Text, BigInt, Text, BigInt, Text, BigInt, Text, BigInt, Text])]);
    }};
}

macro_rules! run_entry {
    ($o:ident, $rng:ident, $only:ident, $replay:ident; $name:literal, $kind:ident, $ty:ty, [$($mt:expr),+]) => {
        if $only.map(|n| n == $name).unwrap_or(true) {
            let types: Vec<MType> = vec![$($mt),+];
            let (t, v): (MType, MValue) = match $replay {
                Some((t, v)) => (t.clone(), v.clone()),
                None => {
                    let t = $rng.pick(&types).clone();
                    let v = <$ty as Carrier>::gen_($rng, &t);
                    (t, v)
                }
            };
            if !<$ty as Carrier>::accepts(&t) {
                $o.inconclusive(format!("carrier {} paired with a column type it does not accept: {t:?}", $name));
            } else {
                let ct = to_col(&t);
                let res = match m::encode_cell(&t, &v) {
                    None => Err(fail("harness", format!("model cannot encode {v:?} as {t:?}"))),
                    Some(cell) => {
                        let cell = Bytes::from(cell);
                        let readable = v != MValue::Unset;
                        let _ = (&cell, readable);
                        run_entry!(@call $kind, $ty, &t, &ct, &v, &cell, readable)
                    }
                };
                $o.case(fw::hash64(format!("{}|{t:?}|{v:?}", $name).as_bytes()), true);
                $o.class(&format!("carrier:{}", $name));
                if let Err(f) = res {
                    report_carrier($o, $name, &t, &v, f);
                }
            }
        }
    };
    (@call full, $ty:ty, $t:expr, $ct:expr, $v:expr, $cell:expr, $readable:expr) => {
        carrier_case::<$ty>($t, $ct, $v, $cell, $readable)
    };
    (@call ser, $ty:ty, $t:expr, $ct:expr, $v:expr, $cell:expr, $readable:expr) => {
        carrier_ser_case::<$ty>($t, $ct, $v)
    };
}

macro_rules! push_name {
    ($out:ident; $name:literal, $kind:ident, $ty:ty, [$($mt:expr),+]) => {
        $out.push($name);
    };
}

fn report_carrier(o: &mut Outcome, name: &str, t: &MType, v: &MValue, f: Failure) {
    if f.kind == "harness" {
        o.inconclusive(format!("carrier {name}: {}", f.detail));
        return;
    }
    let vs = format!("{v:?}");
    let vs: String = vs.chars().take(500).collect();
    let sig = if f.kind.starts_with("de:") && super::vector_with_empty_last_element(t, v) {
        // one root cause seen through every carrier that can hold a vector
        format!("carrier:{}:vector:last-element-zero-length", f.kind)
    } else {
        format!("carrier:{name}:{}:{}", f.kind, shape(t, 1))
    };
    o.violation(
        sig,
        format!("carrier {name}, type {t:?}, value {vs}: {}", f.detail),
        json!({"entry": format!("carrier:{name}"), "type": t, "value": v}),
    );
}

pub fn names() -> Vec<&'static str> {
    let mut out: Vec<&'static str> = Vec::new();
    for_each_carrier!(push_name!(out;));
    out.extend(EXTRA_NAMES);
    out
}

/// One generated case for every carrier of the catalogue.
pub fn run_catalogue(o: &mut Outcome, rng: &mut Rng) {
    let only: Option<&str> = None;
    let replay: Option<(&MType, &MValue)> = None;
    for_each_carrier!(run_entry!(o, rng, only, replay;));
    extra_cases(o, rng);
}

pub fn replay_one(o: &mut Outcome, name: &str, t: &MType, v: &MValue) -> bool {
    if EXTRA_NAMES.contains(&name) {
        let mut rng = Rng::new(1, 1);
        extra_cases(o, &mut rng);
        return true;
    }
    if !names().contains(&name) {
        return false;
    }
    let only: Option<&str> = Some(name);
    let replay: Option<(&MType, &MValue)> = Some((t, v));
    let rng = &mut Rng::new(1, 1);
    for_each_carrier!(run_entry!(o, rng, only, replay;));
    true
}

// ------------------------------------------------------------------ serialize-only forms

const EXTRA_NAMES: [&str; 4] = ["[u8; N]", "[T] slice", "&&T", "Unset"];

/// Forms that exist for binding only: byte arrays, slices, references to references.
fn extra_cases(o: &mut Outcome, rng: &mut Rng) {
    let blob_t = MType::Blob;
    let blob_ct = to_col(&blob_t);
    macro_rules! arr {
        ($n:expr) => {{
            let b: [u8; $n] = rng.bytes($n).try_into().unwrap();
            let want = m::encode_cell(&blob_t, &MValue::Blob(b.to_vec())).unwrap();
            o.case(fw::hash64(&want), true);
            o.class("carrier:[u8; N]");
            match drv_ser(&b, &blob_ct) {
                Ok(Ok(got)) if got == want => {}
                other => o.violation("carrier:[u8; N]:ser:bytes:blob", format!("[u8; {}] {}: {other:?}, model {}", $n, hx(&b), hx(&want)), json!({"entry":"carrier:[u8; N]","type":blob_t,"value":MValue::Blob(b.to_vec())})),
            }
        }};
    }
    arr!(0);
    arr!(1);
    arr!(16);
    arr!(129);

    // slices and double references of a Vec carrier
    let t = rng.pick(&[lst(MType::Int), set(MType::Int), vct(MType::Int, 3)]).clone();
    let v = <Vec<i32> as Carrier>::gen_(rng, &t);
    let ct = to_col(&t);
    if let (Some(c), Some(want)) = (<Vec<i32> as Carrier>::from_model(&t, &v), m::encode_cell(&t, &v)) {
        o.case(fw::hash64(&want), true);
        o.class("carrier:[T] slice");
        match drv_ser::<[i32]>(c.as_slice(), &ct) {
            Ok(Ok(got)) if got == want => {}
            other => o.violation(format!("carrier:[T] slice:ser:bytes:{}", shape(&t, 1)), format!("[i32] {c:?} as {t:?}: {other:?}, model {}", hx(&want)), json!({"entry":"carrier:[T] slice","type":t,"value":v})),
        }
        o.class("carrier:&&T");
        let r = &c;
        match drv_ser::<&&Vec<i32>>(&&r, &ct) {
            Ok(Ok(got)) if got == want => {}
            other => o.violation(format!("carrier:&&T:ser:bytes:{}", shape(&t, 1)), format!("&&Vec<i32> {c:?} as {t:?}: {other:?}, model {}", hx(&want)), json!({"entry":"carrier:&&T","type":t,"value":v})),
        }
    }
    // the Unset marker binds to any type
    let ut = cqlgen::gen_type(rng, cqlgen::TypeOpts { max_depth: 2, top_level: true });
    o.case(fw::hash64(format!("unset|{ut:?}").as_bytes()), true);
    o.class("carrier:Unset");
    match drv_ser(&scylla_cql_core::value::Unset, &to_col(&ut)) {
        Ok(Ok(got)) if got == [0xff, 0xff, 0xff, 0xfe] => {}
        other => o.violation("carrier:Unset:ser:bytes", format!("Unset as {ut:?}: {other:?}"), json!({"entry":"carrier:Unset","type":ut,"value":MValue::Unset})),
    }
}
