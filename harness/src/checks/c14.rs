//! C14 — prepared statements survive server-side eviction transparently and
//! faithfully; result rows are decoded with the right metadata.
//!
//! The mock nodes are the source of truth: they hold the statement's current
//! (id, result-metadata id, column layout), encode rows with the layout that is
//! current when the request arrives, and log every PREPARE / EXECUTE / BATCH.

use super::e2e::*;
use crate::fw::{self, Ctx, Outcome, Rng};
use crate::mock::log::Ev;
use crate::mock::*;
use crate::wire::prim::Value;
use crate::wire::request::{BatchStatement, Request};
use crate::wire::response::*;
use futures::StreamExt;
use scylla::client::caching_session::CachingSession;
use scylla::client::execution_profile::ExecutionProfile;
use scylla::policies::retry::FallthroughRetryPolicy;
use scylla::value::{CqlValue, Row as DRow};
use serde_json::json;
use std::collections::HashMap;
use std::sync::atomic::{AtomicBool, AtomicUsize, Ordering};
use std::sync::{Arc, Mutex};
use std::time::Duration;

const SEL: &str = "SELECT * FROM ks.t WHERE pk = ?";
const INS: &str = "INSERT INTO ks.t (pk, a) VALUES (?, 1)";
const INS2: &str = "INSERT INTO ks.t (pk, a) VALUES (?, 3)";

/// column layouts the "schema" cycles through; values depend on the column NAME, so a
/// row decoded with a stale layout shows wrong values or fails to decode
fn layout(version: usize) -> Vec<(&'static str, ColType)> {
    match version % 4 {
        0 => vec![("a", ColType::Int), ("b", ColType::Text)],
        1 => vec![("a", ColType::Int), ("b", ColType::Text), ("c", ColType::BigInt)],
        2 => vec![("b", ColType::Text), ("a", ColType::Int)],
        _ => vec![("c", ColType::BigInt), ("b", ColType::Text), ("a", ColType::Int), ("d", ColType::Boolean)],
    }
}
fn cols(version: usize) -> Vec<ColSpec> {
    layout(version).into_iter().map(|(n, t)| ColSpec::new("ks", "t", n, t)).collect()
}
fn metadata_id(version: usize) -> Vec<u8> {
    let mut v = b"md-".to_vec();
    v.extend_from_slice(&(version as u64).to_be_bytes());
    v
}
fn version_of_id(id: &[u8]) -> Option<usize> {
    if id.len() == 11 && &id[..3] == b"md-" { Some(u64::from_be_bytes(id[3..].try_into().unwrap()) as usize) } else { None }
}
fn cell(name: &str, pk: i64, rowno: i64) -> Vec<u8> {
    match name {
        "a" => ((pk * 10 + 1 + rowno) as i32).to_be_bytes().to_vec(),
        "b" => format!("b{pk}-{rowno}").into_bytes(),
        "c" => (pk * 10 + 3 + rowno).to_be_bytes().to_vec(),
        _ => vec![((pk + rowno) % 2) as u8],
    }
}
fn expected_value(name: &str, pk: i64, rowno: i64) -> CqlValue {
    match name {
        "a" => CqlValue::Int((pk * 10 + 1 + rowno) as i32),
        "b" => CqlValue::Text(format!("b{pk}-{rowno}")),
        "c" => CqlValue::BigInt(pk * 10 + 3 + rowno),
        _ => CqlValue::Boolean((pk + rowno) % 2 == 1),
    }
}

struct Truth {
    version: AtomicUsize,
    ext: bool,
    /// nodes that answer PREPARE of SEL with another id
    id_changed: Mutex<Vec<bool>>,
    /// answer every EXECUTE/BATCH with UNPREPARED regardless of the registry (never-ending eviction)
    always_unprepared: AtomicBool,
    /// per op (pk): what happened at the nodes
    seen: Mutex<HashMap<i64, Vec<Seen>>>,
    /// (pk, version): ROWS answers that carried a new result-metadata id (announcements actually made)
    announcements: Mutex<Vec<(i64, usize)>>,
}

#[derive(Debug, Clone)]
struct Seen {
    node: usize,
    kind: &'static str,
    /// frame fields that must be identical in a repeat
    id: Vec<u8>,
    values: Vec<Value>,
    consistency: u16,
    page_size: Option<i32>,
    paging_state: Option<Vec<u8>>,
    serial: Option<u16>,
    timestamp: Option<i64>,
    presented_md: Option<Vec<u8>>,
    skip: bool,
    answered: &'static str,
    encoded_version: Option<usize>,
    #[allow(dead_code)]
    recv_seq: u64,
}

struct H14 {
    t: Arc<Truth>,
}

fn sel_id() -> Vec<u8> {
    fw::hash_str(SEL).to_be_bytes().to_vec()
}
fn ins_id() -> Vec<u8> {
    fw::hash_str(INS).to_be_bytes().to_vec()
}

impl H14 {
    fn pk_of(values: &[Value]) -> Option<i64> {
        match values.first()? {
            Value::Bytes(b) if b.len() == 8 => Some(i64::from_be_bytes(b.as_slice().try_into().unwrap())),
            _ => None,
        }
    }
}

impl Handler for H14 {
    fn statement(&self, node: &MockNode, query: &str) -> Option<StatementDef> {
        let v = self.t.version.load(Ordering::SeqCst);
        if query == SEL {
            let changed = self.t.id_changed.lock().unwrap().get(node.idx).copied().unwrap_or(false);
            let mut id = sel_id();
            if changed {
                id[0] ^= 0xff;
            }
            let mut d = StatementDef::new(query, &id);
            d.bind = vec![ColSpec::new("ks", "t", "pk", ColType::BigInt)];
            d.pk_indexes = vec![0];
            d.result = cols(v);
            d.result_metadata_id = if self.t.ext && node.spec.read().unwrap().features.metadata_id { Some(metadata_id(v)) } else { None };
            Some(d)
        } else if query == INS {
            // (an id change on a node hits this statement as well: batches meet it through their first statement)
            let mut id = ins_id();
            if self.t.id_changed.lock().unwrap().get(node.idx).copied().unwrap_or(false) {
                id[0] ^= 0xff;
            }
            let mut d = StatementDef::new(query, &id);
            d.bind = vec![ColSpec::new("ks", "t", "pk", ColType::BigInt)];
            d.pk_indexes = vec![0];
            Some(d)
        } else if query.contains('?') {
            // any other parameterised statement (the batch's second statement is prepared by the driver)
            let mut d = StatementDef::new(query, &fw::hash_str(query).to_be_bytes());
            d.bind = (0..query.matches('?').count()).map(|i| ColSpec::new("ks", "t", &format!("p{i}"), ColType::BigInt)).collect();
            d.pk_indexes = vec![0];
            Some(d)
        } else {
            None
        }
    }

    fn intercept(&self, rq: Rq) -> Option<Rq> {
        // never-ending eviction: every EXECUTE/BATCH is UNPREPARED although PREPARE succeeds
        if self.t.always_unprepared.load(Ordering::SeqCst) {
            match &*rq.request {
                Request::Execute { id, params, .. } => {
                    if let Some(pk) = params.values.as_ref().and_then(|v| Self::pk_of(v)) {
                        self.record(&rq, pk, "EXECUTE", id.clone(), "UNPREPARED", None);
                    }
                    rq.error(ErrorBody::unprepared(id));
                    return None;
                }
                Request::Batch { statements, .. } => {
                    let id = statements.iter().find_map(|s| if let BatchStatement::Prepared { id, .. } = s { Some(id.clone()) } else { None }).unwrap_or_default();
                    rq.error(ErrorBody::unprepared(&id));
                    return None;
                }
                _ => {}
            }
        }
        // log EXECUTEs answered UNPREPARED by the node's own registry
        if let Request::Execute { id, params, .. } = &*rq.request {
            if rq.statement.is_none() {
                if let Some(pk) = params.values.as_ref().and_then(|v| Self::pk_of(v)) {
                    self.record(&rq, pk, "EXECUTE", id.clone(), "UNPREPARED", None);
                }
            }
        }
        if let Request::Batch { statements, .. } = &*rq.request {
            // every third batch: the node has meanwhile forgotten the statement that the connection prepared
            // on the fly for this very batch (the plain-text statement with bound values)
            let pk = statements.iter().find_map(|s| match s {
                BatchStatement::Prepared { values, .. } => Self::pk_of(values),
                _ => None,
            });
            if let Some(pk) = pk {
                let first_time = self.t.seen.lock().unwrap().get(&pk).map(|v| v.iter().all(|s| s.kind != "BATCH")).unwrap_or(true);
                if pk % 3 == 1 && first_time {
                    for s in statements {
                        if let BatchStatement::Prepared { id, .. } = s {
                            if *id != ins_id() {
                                rq.node.evict(id);
                            }
                        }
                    }
                }
            }
            // the node names the first statement of the batch it does not know
            let unknown = statements.iter().find_map(|s| match s {
                BatchStatement::Prepared { id, .. } if !rq.node.knows(id) => Some(id.clone()),
                _ => None,
            });
            if let Some(unknown_id) = unknown {
                if let Some(pk) = statements.iter().find_map(|s| match s {
                    BatchStatement::Prepared { values, .. } => Self::pk_of(values),
                    _ => None,
                }) {
                    self.record(&rq, pk, "BATCH", unknown_id, "UNPREPARED", None);
                }
            }
        }
        Some(rq)
    }

    fn on_request(&self, rq: Rq) {
        match &*rq.request {
            Request::Execute { id, result_metadata_id, params } => {
                let Some(pk) = params.values.as_ref().and_then(|v| Self::pk_of(v)) else {
                    rq.void();
                    return;
                };
                let def = rq.statement.clone().unwrap();
                if def.query != SEL {
                    self.record(&rq, pk, "EXECUTE", id.clone(), "VOID", None);
                    rq.void();
                    return;
                }
                let v = self.t.version.load(Ordering::SeqCst);
                self.record(&rq, pk, "EXECUTE", id.clone(), "ROWS", Some(v));
                // two pages when a page size is given: rows 0..2 then row 2
                let (rows, ps): (Vec<i64>, Option<Vec<u8>>) = match (params.page_size, &params.paging_state) {
                    (Some(_), None) => (vec![0, 1], Some(b"page2".to_vec())),
                    (Some(_), Some(_)) => (vec![2], None),
                    (None, _) => (vec![0], None),
                };
                let lay = layout(v);
                let rows: Vec<Row> = rows.iter().map(|r| lay.iter().map(|(n, _)| Some(cell(n, pk, *r))).collect()).collect();
                let mut md = ResultMetadata { columns: cols(v), paging_state: ps, no_metadata: false, global_spec: true, new_metadata_id: None };
                if params.skip_metadata {
                    let conn_ext = rq.conn.ext.lock().unwrap().metadata_id;
                    if self.t.ext && conn_ext && result_metadata_id.as_deref() != Some(&metadata_id(v)[..]) {
                        md.new_metadata_id = Some(metadata_id(v));
                        self.t.announcements.lock().unwrap().push((pk, v));
                    } else {
                        md.no_metadata = true;
                    }
                }
                let first_page_of_paged = params.page_size.is_some() && params.paging_state.is_none();
                rq.reply(&Response::Result(ResultBody::Rows { metadata: md, rows }));
                if first_page_of_paged && pk % 2 == 0 {
                    // the node forgets the statement between two pages of the same iteration: the request
                    // for the next page is answered UNPREPARED and must be repeated WITH its paging state
                    rq.node.evict(id);
                }
            }
            Request::Batch { statements, .. } => {
                if let Some(pk) = statements.iter().find_map(|s| match s {
                    BatchStatement::Prepared { values, .. } => Self::pk_of(values),
                    _ => None,
                }) {
                    self.record(&rq, pk, "BATCH", vec![], "VOID", None);
                }
                rq.void();
            }
            _ => rq.void(),
        }
    }
}

impl H14 {
    fn record(&self, rq: &Rq, pk: i64, kind: &'static str, id: Vec<u8>, answered: &'static str, encoded_version: Option<usize>) {
        let (values, consistency, page_size, paging_state, serial, timestamp, presented_md, skip) = match &*rq.request {
            Request::Execute { params, result_metadata_id, .. } => (params.values.clone().unwrap_or_default(), params.consistency, params.page_size, params.paging_state.clone(), params.serial_consistency, params.timestamp, result_metadata_id.clone(), params.skip_metadata),
            Request::Batch { statements, consistency, serial_consistency, timestamp, .. } => {
                let mut vals = Vec::new();
                for s in statements {
                    match s {
                        BatchStatement::Prepared { id, values } => {
                            vals.push(Value::Bytes(id.clone()));
                            vals.extend(values.iter().cloned());
                        }
                        BatchStatement::Query { query, values } => {
                            vals.push(Value::Bytes(query.as_bytes().to_vec()));
                            vals.extend(values.iter().cloned());
                        }
                    }
                }
                (vals, *consistency, None, None, *serial_consistency, *timestamp, None, false)
            }
            _ => (vec![], 0, None, None, None, None, None, false),
        };
        self.t.seen.lock().unwrap().entry(pk).or_default().push(Seen { node: rq.node.idx, kind, id, values, consistency, page_size, paging_state, serial, timestamp, presented_md, skip, answered, encoded_version, recv_seq: rq.seq });
    }
}

#[derive(Clone, Debug, PartialEq, Eq)]
enum Step {
    Exec,
    ExecPaged,
    ExecCaching,
    Batch,
    Evict(usize),
    EvictAll,
    SchemaChange,
    IdChange(usize),
    /// barrier: wait for all running callers
    Join,
}

#[derive(Clone, Debug)]
struct Hist {
    /// with `ext`: node 0 does NOT speak the metadata-id extension, nodes 1 and 2 do (a cluster being upgraded)
    mixed: bool,
    ext: bool,
    use_cached: bool,
    steps: Vec<Step>,
    endless_unprepared: bool,
    seed: u64,
}

#[derive(Debug, Clone)]
struct OpResult {
    pk: i64,
    api: &'static str,
    call_seq: u64,
    ret_seq: u64,
    /// Ok: per row (column name, value) pairs as decoded by the caller
    outcome: Result<Vec<Vec<(String, Option<CqlValue>)>>, String>,
    after_id_change: bool,
    hung: bool,
}

fn decode(rows_result: scylla::response::query_result::QueryRowsResult) -> Result<Vec<Vec<(String, Option<CqlValue>)>>, String> {
    let names: Vec<String> = rows_result.column_specs().iter().map(|c| c.name().to_string()).collect();
    let mut out = Vec::new();
    for r in rows_result.rows::<DRow>().map_err(|e| format!("type check: {e}"))? {
        let r = r.map_err(|e| format!("row decode: {e}"))?;
        if r.columns.len() != names.len() {
            return Err(format!("row has {} cells, metadata names {} columns", r.columns.len(), names.len()));
        }
        out.push(names.iter().cloned().zip(r.columns.into_iter()).collect());
    }
    Ok(out)
}

struct HistOut {
    ops: Vec<OpResult>,
    seen: HashMap<i64, Vec<Seen>>,
    announcements: Vec<(i64, usize)>,
    /// (seq, version) of every metadata id announced to the client in a PREPARED or ROWS response
    log: Arc<crate::mock::log::EventLog>,
    violations: Vec<String>,
    build_error: Option<String>,
}

async fn run_hist(h: &Hist) -> HistOut {
    let truth = Arc::new(Truth { version: AtomicUsize::new(0), ext: h.ext, id_changed: Mutex::new(vec![false; 3]), always_unprepared: AtomicBool::new(false), seen: Mutex::new(HashMap::new()), announcements: Mutex::new(vec![]) });
    let handler = Arc::new(H14 { t: truth.clone() });
    let feat = Features { metadata_id: h.ext, ..Default::default() };
    let mk = |rack: &str, tok: i64| NodeSpec { dc: Some("dc1".into()), rack: Some(rack.into()), tokens: vec![tok], sharding: None, features: feat };
    let spec = ClusterSpec {
        nodes: vec![mk("r1", -1000), mk("r2", 0), mk("r3", 1000)],
        keyspaces: vec![KeyspaceDef::simple("ks", 3).with_table(TableDef::new("t", &[("pk", "bigint")], &[("a", "int"), ("b", "text")]))],
        cluster_name: "c14".into(),
    };
    let mut spec = spec;
    if h.mixed {
        spec.nodes[0].features.metadata_id = false;
    }
    let cluster = MockCluster::start(spec, handler).await;
    let log = cluster.log().clone();
    let mut out = HistOut { ops: vec![], seen: HashMap::new(), announcements: vec![], log: log.clone(), violations: vec![], build_error: None };
    // no retries: an error answer must surface as it is (re-preparation is not a retry)
    let profile = ExecutionProfile::builder().retry_policy(Arc::new(FallthroughRetryPolicy::new())).request_timeout(None).build();
    let with_generator = h.seed % 2 == 0;
    let caching = match connect(&cluster, |b| {
        let b = b.default_execution_profile_handle(profile.into_handle());
        if with_generator { b.timestamp_generator(Arc::new(scylla::policies::timestamp_generator::MonotonicTimestampGenerator::new())) } else { b }
    })
    .await
    {
        Ok(s) => Arc::new(CachingSession::<std::collections::hash_map::RandomState>::from(s, 16)),
        Err(e) => {
            out.build_error = Some(e);
            cluster.shutdown();
            return out;
        }
    };
    {
        let c = cluster.clone();
        cluster.wait_until(Duration::from_secs(10), move || (0..3).all(|i| c.established(i).iter().any(|x| !x.registered.load(Ordering::SeqCst)))).await;
    }
    let session = caching.get_session();
    let mut sel = match session.prepare(SEL).await {
        Ok(p) => p,
        Err(e) => {
            out.build_error = Some(format!("prepare: {e}"));
            cluster.shutdown();
            return out;
        }
    };
    sel.set_use_cached_result_metadata(h.use_cached);
    let ins = match session.prepare(INS).await {
        Ok(p) => p,
        Err(e) => {
            out.build_error = Some(format!("prepare: {e}"));
            cluster.shutdown();
            return out;
        }
    };
    let sel = Arc::new(sel);
    let ins = Arc::new(ins);
    let ins2 = match session.prepare(INS2).await {
        Ok(p) => Arc::new(p),
        Err(e) => {
            out.build_error = Some(format!("prepare: {e}"));
            cluster.shutdown();
            return out;
        }
    };
    let results: Arc<Mutex<Vec<OpResult>>> = Arc::new(Mutex::new(Vec::new()));
    let mut running: Vec<tokio::task::JoinHandle<()>> = Vec::new();
    let mut id_change_active = false;
    if h.endless_unprepared {
        truth.always_unprepared.store(true, Ordering::SeqCst);
    }
    for st in &h.steps {
        match st {
            Step::Join => {
                for j in running.drain(..) {
                    let _ = j.await;
                }
            }
            Step::Evict(n) => cluster.node(*n).evict_all_user(),
            Step::EvictAll => {
                for n in cluster.nodes() {
                    n.evict_all_user();
                }
            }
            Step::SchemaChange => {
                truth.version.fetch_add(1, Ordering::SeqCst);
            }
            Step::IdChange(n) => {
                truth.id_changed.lock().unwrap()[*n] = true;
                cluster.node(*n).evict_all_user();
                id_change_active = true;
            }
            api => {
                let pk = next_op() as i64;
                let (caching, sel, ins, ins2, log, results) = (caching.clone(), sel.clone(), ins.clone(), ins2.clone(), log.clone(), results.clone());
                let api = api.clone();
                let after_id_change = id_change_active;
                running.push(tokio::spawn(async move {
                    let name: &'static str = match api {
                        Step::Exec => "execute_unpaged",
                        Step::ExecPaged => "execute_iter",
                        Step::ExecCaching => "caching_execute_unpaged",
                        _ => "batch",
                    };
                    let call_seq = log.push(Ev::ClientCall { op: pk as u64, api: name, detail: String::new() });
                    let fut = async {
                        let session = caching.get_session();
                        match api {
                            Step::Exec => {
                                // every third execution carries an explicit timestamp, which must survive a repeat
                                let mut p = (*sel).clone();
                                if pk % 3 == 0 {
                                    p.set_timestamp(Some(pk * 1000 + 7));
                                }
                                match session.execute_unpaged(&p, (pk,)).await {
                                    Err(e) => Err(format!("{e}")),
                                    Ok(r) => r.into_rows_result().map_err(|e| format!("{e}")).and_then(decode),
                                }
                            }
                            Step::ExecCaching => match caching.execute_unpaged(SEL, (pk,)).await {
                                Err(e) => Err(format!("{e}")),
                                Ok(r) => r.into_rows_result().map_err(|e| format!("{e}")).and_then(decode),
                            },
                            Step::ExecPaged => {
                                let mut p = (*sel).clone();
                                p.set_page_size(2);
                                match session.execute_iter(p, (pk,)).await {
                                    Err(e) => Err(format!("{e}")),
                                    Ok(pager) => {
                                        let names: Vec<String> = pager.column_specs().iter().map(|c| c.name().to_string()).collect();
                                        match pager.rows_stream::<DRow>() {
                                            Err(e) => Err(format!("type check: {e}")),
                                            Ok(mut s) => {
                                                let mut rows = Vec::new();
                                                let mut err = None;
                                                while let Some(r) = s.next().await {
                                                    match r {
                                                        Ok(r) => rows.push(names.iter().cloned().zip(r.columns.into_iter()).collect()),
                                                        Err(e) => {
                                                            err = Some(format!("{e}"));
                                                            break;
                                                        }
                                                    }
                                                }
                                                match err {
                                                    Some(e) => Err(e),
                                                    None => Ok(rows),
                                                }
                                            }
                                        }
                                    }
                                }
                            }
                            _ => {
                                // shapes: [prepared, plain-with-values], [prepared, prepared], [prepared, prepared, plain-with-values]:
                                // after an eviction the node may name one statement after the other as unknown
                                let mut b = scylla::statement::batch::Batch::default();
                                b.append_statement((*ins).clone());
                                match pk % 3 {
                                    0 => {
                                        b.append_statement(scylla::statement::Statement::new("UPDATE ks.t SET a = 2 WHERE pk = ?"));
                                        session.batch(&b, ((pk,), (pk,))).await.map(|_| Vec::new()).map_err(|e| format!("{e}"))
                                    }
                                    1 => {
                                        b.append_statement((*ins2).clone());
                                        session.batch(&b, ((pk,), (pk,))).await.map(|_| Vec::new()).map_err(|e| format!("{e}"))
                                    }
                                    _ => {
                                        b.append_statement((*ins2).clone());
                                        b.append_statement(scylla::statement::Statement::new("UPDATE ks.t SET a = 2 WHERE pk = ?"));
                                        session.batch(&b, ((pk,), (pk,), (pk,))).await.map(|_| Vec::new()).map_err(|e| format!("{e}"))
                                    }
                                }
                            }
                        }
                    };
                    let (outcome, hung) = match tokio::time::timeout(Duration::from_secs(20), fut).await {
                        Ok(o) => (o, false),
                        Err(_) => (Err("watchdog".into()), true),
                    };
                    let ret_seq = log.push(Ev::ClientReturn { op: pk as u64, ok: outcome.is_ok(), detail: String::new() });
                    results.lock().unwrap().push(OpResult { pk, api: name, call_seq, ret_seq, outcome, after_id_change, hung });
                }));
            }
        }
    }
    for j in running.drain(..) {
        let _ = j.await;
    }
    out.ops = results.lock().unwrap().clone();
    out.seen = truth.seen.lock().unwrap().clone();
    out.announcements = truth.announcements.lock().unwrap().clone();
    out.violations = log.violations();
    drop(caching);
    cluster.shutdown();
    out
}

fn judge(o: &mut Outcome, h: &Hist, r: &HistOut) {
    let replay_base = json!({"mixed": h.mixed, "ext": h.ext, "use_cached": h.use_cached, "endless": h.endless_unprepared, "seed": h.seed, "steps": h.steps.iter().map(|s| format!("{s:?}")).collect::<Vec<_>>()});
    if let Some(e) = &r.build_error {
        o.inconclusive(format!("history could not start: {e}"));
        return;
    }
    o.case(fw::hash64(format!("{:?}{}{}{}", h.steps, h.ext, h.use_cached, h.endless_unprepared).as_bytes()), h.steps.len() > 2);
    o.class(if h.mixed { "ext:metadata-id-on-two-of-three-nodes" } else if h.ext { "ext:metadata-id" } else { "ext:none" });
    o.class(if h.use_cached { "skip-metadata:on" } else { "skip-metadata:off" });
    for s in &h.steps {
        o.class(&format!("step:{}", format!("{s:?}").split('(').next().unwrap()));
    }
    for v in &r.violations {
        o.node_violation("c14", &v, replay_base.clone());
    }
    for op in &r.ops {
        let seen = r.seen.get(&op.pk).cloned().unwrap_or_default();
        let replay = json!({"history": replay_base, "op": {"pk": op.pk, "api": op.api, "outcome": format!("{:?}", op.outcome).chars().take(400).collect::<String>()},
            "frames": seen.iter().map(|s| format!("{} node {} id {} md {:?} skip {} -> {} (v{:?})", s.kind, s.node, fw::hex(&s.id), s.presented_md.as_ref().map(|m| fw::hex(m)), s.skip, s.answered, s.encoded_version)).collect::<Vec<_>>()});
        o.evals(1);
        if op.hung {
            if h.endless_unprepared && op.api == "batch" {
                // the statement promises faithfulness, not termination, under never-ending eviction: a BATCH is
                // re-prepared and repeated for as long as the node keeps naming a statement unknown
                o.class("endless-eviction:batch-caller-still-waiting(not-asserted)");
            } else {
                o.violation("c14:caller-never-returned", format!("{} of pk {} did not return within 20 s ({} frames reached the nodes)", op.api, op.pk, seen.len()), replay.clone());
            }
            continue;
        }
        // repeats after UNPREPARED must be the same request
        let mut saw_unprepared = false;
        for w in seen.windows(2) {
            if w[0].answered == "UNPREPARED" && w[1].kind == w[0].kind && w[1].node == w[0].node {
                saw_unprepared = true;
                // (for a BATCH the id field holds the statement the node named as unknown, not a request field)
                let same = (w[0].kind == "BATCH" || w[0].id == w[1].id) && w[0].values == w[1].values && w[0].consistency == w[1].consistency && w[0].page_size == w[1].page_size && w[0].paging_state == w[1].paging_state && w[0].serial == w[1].serial && w[0].timestamp == w[1].timestamp;
                if !same {
                    o.violation("c14:repeat-after-unprepared-differs", format!("{} of pk {}: the request repeated after UNPREPARED differs from the original in id/values/parameters", op.api, op.pk), replay.clone());
                }
            }
        }
        if saw_unprepared {
            o.class("reprepared-transparently");
        }
        {
            let named: std::collections::BTreeSet<&Vec<u8>> = seen.iter().filter(|s| s.kind == "BATCH" && s.answered == "UNPREPARED").map(|s| &s.id).collect();
            if named.len() >= 2 && op.outcome.is_ok() {
                o.class("batch:several-statements-named-unknown-in-turn");
            }
        }
        if op.api == "execute_unpaged" && op.pk % 3 == 0 {
            for s in seen.iter().filter(|s| s.kind == "EXECUTE") {
                if s.timestamp != Some(op.pk * 1000 + 7) {
                    o.violation("c14:explicit-timestamp-changed", format!("execute_unpaged of pk {}: the statement's explicit timestamp {} arrived as {:?} ({} frame answered {})", op.pk, op.pk * 1000 + 7, s.timestamp, s.kind, s.answered), replay.clone());
                }
            }
            o.class("explicit-timestamp-checked");
        }
        // never an execution under another id than the one the caller prepared
        for s in &seen {
            if s.kind == "EXECUTE" && !s.id.is_empty() && s.id != sel_id() && s.id != ins_id() {
                o.violation("c14:executed-under-changed-id", format!("pk {}: an EXECUTE carried id {} which is not the id the statement was prepared under", op.pk, fw::hex(&s.id)), replay.clone());
            }
        }
        match &op.outcome {
            Err(e) => {
                // the driver re-prepares and repeats ONCE; if the repeat is answered UNPREPARED again (a second
                // eviction hit the same execution) the error may surface: counted, not asserted
                let unprepared_answers = seen.iter().filter(|s| s.answered == "UNPREPARED").count();
                if unprepared_answers >= 2 && !op.after_id_change && !h.endless_unprepared {
                    // ... but only if the driver did re-prepare in between: a PREPARE of the statement must have
                    // reached that node between the two UNPREPARED answers (node's own log)
                    let un: Vec<&Seen> = seen.iter().filter(|s| s.answered == "UNPREPARED").collect();
                    let snapshot = r.log.snapshot();
                    let mut re_prepared = true;
                    // the SAME statement must have been named twice by the same node: two different statements of
                    // one batch, each evicted once, are no second eviction
                    let same_twice = un.iter().enumerate().any(|(i, a)| un.iter().skip(i + 1).any(|b| a.node == b.node && a.id == b.id));
                    if !same_twice {
                        o.violation("c14:caller-saw-an-error", format!("{} of pk {} failed ({e}) although every statement the node named as unknown was named once only and every node can prepare it", op.api, op.pk), replay.clone());
                        continue;
                    }
                    for w in un.windows(2) {
                        if w[0].node != w[1].node || w[0].id != w[1].id {
                            continue;
                        }
                        let between = snapshot.iter().any(|l| {
                            l.seq > w[0].recv_seq
                                && l.seq < w[1].recv_seq
                                && matches!(&l.ev, crate::mock::log::Ev::Recv { node, request, .. } if *node == w[0].node && matches!(&**request, Request::Prepare { query } if query == SEL || query == INS))
                        });
                        if !between {
                            re_prepared = false;
                        }
                    }
                    if re_prepared {
                        o.class("evicted-twice-during-one-execution(not-asserted)");
                    } else {
                        o.violation("c14:repeated-without-re-preparing", format!("{} of pk {}: answered UNPREPARED twice by the same node, and no PREPARE of the statement reached that node in between; the caller got {e}", op.api, op.pk), replay.clone());
                    }
                    continue;
                }
                if unprepared_answers >= 2 && !op.after_id_change {
                    o.class("evicted-twice-during-one-execution(not-asserted)");
                    continue;
                }
                let explained = op.after_id_change || h.endless_unprepared;
                if !explained {
                    o.violation("c14:caller-saw-an-error", format!("{} of pk {} failed ({e}) although every node can prepare and execute the statement", op.api, op.pk), replay.clone());
                } else if e.contains("changed") || e.contains("Reprepared") || e.contains("reprepared") {
                    o.class("id-change:caller-got-error");
                }
            }
            Ok(rows) => {
                if op.api == "batch" {
                    continue;
                }
                // rows decoded by the caller == rows the node encoded (values are a function of column NAME)
                let expect_rows: usize = if op.api == "execute_iter" { 3 } else { 1 };
                if rows.len() != expect_rows {
                    o.violation("c14:wrong-row-count", format!("{} of pk {} delivered {} rows, the node sent {expect_rows}", op.api, op.pk, rows.len()), replay.clone());
                }
                for (i, row) in rows.iter().enumerate() {
                    for (name, val) in row {
                        let want = expected_value(name, op.pk, i as i64);
                        if val.as_ref() != Some(&want) {
                            o.violation("c14:row-decoded-with-wrong-metadata", format!("{} of pk {}: row {i} column {name:?} decoded as {val:?}, the node encoded {want:?}", op.api, op.pk), replay.clone());
                        }
                    }
                    // the set of columns must be the layout the node used for that answer
                    let versions: Vec<usize> = seen.iter().filter(|s| s.answered == "ROWS").filter_map(|s| s.encoded_version).collect();
                    let names: Vec<&str> = row.iter().map(|(n, _)| n.as_str()).collect();
                    if !versions.iter().any(|v| layout(*v).iter().map(|(n, _)| *n).collect::<Vec<_>>() == names) {
                        o.violation("c14:row-decoded-with-wrong-metadata", format!("{} of pk {}: row {i} has columns {names:?}, the node answered with layout versions {versions:?}", op.api, op.pk), replay.clone());
                    }
                }
                o.class("rows-verified");
            }
        }
    }
    // mixed cluster: an id that a node ANNOUNCED (together with the metadata) to an execution that has returned is
    // what the next execution presents on a connection that speaks the extension
    if h.mixed {
        let mut told: Vec<(u64, usize)> = Vec::new(); // (ret_seq of the op that was told, version)
        for op in &r.ops {
            if op.api == "caching_execute_unpaged" || op.outcome.is_err() {
                continue;
            }
            if let Some(v) = r.announcements.iter().filter(|(pk, _)| *pk == op.pk).map(|(_, v)| *v).max() {
                told.push((op.ret_seq, v));
            }
        }
        for op in &r.ops {
            if op.api == "caching_execute_unpaged" {
                continue;
            }
            let Some(known) = told.iter().filter(|(rs, _)| *rs < op.call_seq).map(|(_, v)| *v).max() else { continue };
            // first EXECUTE of this op on a node that speaks the extension (nodes 1 and 2)
            let Some(first) = r.seen.get(&op.pk).and_then(|s| s.iter().find(|x| x.kind == "EXECUTE" && x.id == sel_id() && x.node != 0)) else { continue };
            match first.presented_md.as_ref().map(|m| version_of_id(m)) {
                Some(Some(p)) if p >= known => o.class("metadata-id:announced-id-presented(mixed-cluster)"),
                other => o.violation(
                    "c14:announced-metadata-id-not-presented",
                    format!("{} of pk {} presented {:?} (version {other:?}) on a connection that speaks the metadata-id extension, although an earlier, already returned execution had been sent the id of version {known} together with its metadata", op.api, op.pk, first.presented_md.as_ref().map(|m| fw::hex(m))),
                    json!({"history": replay_base, "pk": op.pk}),
                ),
            }
        }
    }
    // the next execution presents the latest announced metadata id (extension on, skip-metadata on)
    if h.ext && !h.mixed {
        // announcements: every ROWS answer encoded at version v to an op that has returned
        let mut returned: Vec<(u64, usize)> = Vec::new(); // (ret_seq, version the client must know afterwards)
        for op in &r.ops {
            // the cache of a CachingSession holds its own PreparedStatement object: what it was told says
            // nothing about the statement object the other callers share
            if op.api == "caching_execute_unpaged" {
                continue;
            }
            if let Ok(_) = &op.outcome {
                if let Some(v) = r.seen.get(&op.pk).and_then(|s| s.iter().filter(|x| x.answered == "ROWS").filter_map(|x| x.encoded_version).max()) {
                    returned.push((op.ret_seq, v));
                }
            }
        }
        for op in &r.ops {
            let known: Option<usize> = returned.iter().filter(|(rs, _)| *rs < op.call_seq).map(|(_, v)| *v).max();
            let Some(known) = known else { continue };
            if let Some(first) = r.seen.get(&op.pk).and_then(|s| s.iter().find(|x| x.kind == "EXECUTE" && x.id == sel_id())) {
                if op.api == "caching_execute_unpaged" {
                    continue; // a separate PreparedStatement object lives in the cache
                }
                if let Some(p) = first.presented_md.as_ref().and_then(|m| version_of_id(m)) {
                    if p < known {
                        o.violation("c14:stale-metadata-id-presented", format!("{} of pk {} presented result-metadata id of version {p} although an earlier, already returned execution had been told version {known}", op.api, op.pk), json!({"history": replay_base, "pk": op.pk}));
                    } else {
                        o.class("metadata-id:latest-presented");
                    }
                }
            }
        }
    }
    if o.want_sample() {
        o.sample(json!({"history": replay_base, "ops": r.ops.len(), "frames": r.seen.values().map(|v| v.len()).sum::<usize>()}));
    }
    o.note_add("ops", r.ops.len() as u64);
    o.note_add("frames", r.seen.values().map(|v| v.len() as u64).sum());
}

fn gen_hist(rng: &mut Rng, seed: u64) -> Hist {
    let ext = rng.bool();
    let use_cached = rng.bool();
    let mixed = ext && rng.chance(1, 3);
    // without the extension (on every node) the protocol gives no signal of a schema change while metadata is skipped
    let schema_changes_allowed = (ext && !mixed) || !use_cached;
    let n = rng.usize(4, 18);
    let mut steps = Vec::new();
    let mut id_changed = false;
    for _ in 0..n {
        let s = match rng.below(14) {
            0..=3 => Step::Exec,
            4 => Step::ExecPaged,
            5 => Step::ExecCaching,
            6 | 7 => Step::Batch,
            8 | 9 => Step::Evict(rng.below(3) as usize),
            10 => Step::EvictAll,
            11 if schema_changes_allowed => Step::SchemaChange,
            12 if !id_changed && rng.chance(1, 3) => {
                id_changed = true;
                Step::IdChange(rng.below(3) as usize)
            }
            _ => Step::Join,
        };
        // state changes happen at quiescent points unless concurrency is wanted
        if matches!(s, Step::SchemaChange | Step::IdChange(_)) || (matches!(s, Step::Evict(_) | Step::EvictAll) && rng.bool()) {
            steps.push(Step::Join);
        }
        steps.push(s);
    }
    Hist { mixed, ext, use_cached, steps, endless_unprepared: false, seed }
}

pub fn run(ctx: &Ctx) -> Outcome {
    let mut out = Outcome::new();
    let rt = runtime(ctx.workers.min(8));
    let mut rng = ctx.rng(1414);
    let mut hists = Vec::new();
    if let Some(p) = &ctx.replay {
        let v: serde_json::Value = serde_json::from_str(&std::fs::read_to_string(p).expect("replay")).expect("json");
        let r = if v["replay"]["history"].is_object() { &v["replay"]["history"] } else { &v["replay"] };
        let steps = r["steps"].as_array().map(|a| a.iter().filter_map(|s| s.as_str()).map(|s| {
            let arg = s.split('(').nth(1).and_then(|x| x.trim_end_matches(')').parse::<usize>().ok()).unwrap_or(0);
            match s.split('(').next().unwrap() {
                "Exec" => Step::Exec, "ExecPaged" => Step::ExecPaged, "ExecCaching" => Step::ExecCaching, "Batch" => Step::Batch,
                "Evict" => Step::Evict(arg), "EvictAll" => Step::EvictAll, "SchemaChange" => Step::SchemaChange, "IdChange" => Step::IdChange(arg), _ => Step::Join,
            }
        }).collect()).unwrap_or_default();
        let h = Hist { mixed: r["mixed"].as_bool().unwrap_or(false), ext: r["ext"].as_bool().unwrap_or(false), use_cached: r["use_cached"].as_bool().unwrap_or(false), steps, endless_unprepared: r["endless"].as_bool().unwrap_or(false), seed: 1 };
        for _ in 0..5 {
            let ho = rt.block_on(run_hist(&h));
            judge(&mut out, &h, &ho);
        }
        return out;
    }
    let n = ctx.vol(1500, 60_000);
    for i in 0..n {
        hists.push(gen_hist(&mut rng, ctx.seed.wrapping_mul(7919).wrapping_add(i)));
    }
    // never-ending eviction: every EXECUTE/BATCH is answered UNPREPARED although PREPARE succeeds
    // (checked for faithfulness of the repeats only; termination is not part of the statement)
    hists.push(Hist { mixed: false, ext: false, use_cached: false, steps: vec![Step::Exec, Step::Join], endless_unprepared: true, seed: 0 });
    for chunk in hists.chunks(10) {
        let res: Vec<(Hist, HistOut)> = rt.block_on(async {
            let mut js = Vec::new();
            for h in chunk.iter().cloned() {
                js.push(tokio::spawn(async move {
                    let r = run_hist(&h).await;
                    (h, r)
                }));
            }
            let mut v = Vec::new();
            for j in js {
                if let Ok(x) = j.await {
                    v.push(x);
                }
            }
            v
        });
        for (h, r) in &res {
            judge(&mut out, h, r);
        }
        if fw::stop_early(&mut out) {
            break;
        }
    }
    for c in ["ext:metadata-id", "ext:metadata-id-on-two-of-three-nodes", "metadata-id:announced-id-presented(mixed-cluster)", "ext:none", "skip-metadata:on", "skip-metadata:off", "step:Exec", "step:ExecPaged", "step:ExecCaching", "step:Batch", "batch:several-statements-named-unknown-in-turn", "step:Evict", "step:EvictAll",
        "step:SchemaChange", "step:IdChange", "explicit-timestamp-checked", "reprepared-transparently", "rows-verified", "id-change:caller-got-error", "metadata-id:latest-presented"] {
        out.require_class(c);
    }
    out
}
