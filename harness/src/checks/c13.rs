//! C13 — speculative execution: idempotent-only, bounded, first real answer wins.
//!
//! Part "a" (this file, hook level): the REAL `speculative_execution::execute` loop
//! (through `verif_hooks::speculative_execute`) is driven with synthetic executions on
//! a paused current-thread tokio runtime, i.e. in deterministic virtual time, and
//! every run is judged by `refmodel::specexec::judge`.
//! Part "b" (end to end: real `Session` against the mock cluster, idempotence gate,
//! distinct plan targets) is built separately — see `part_b` at the bottom.
use crate::fw::{self, Ctx, Outcome, Rng};
use crate::refmodel::specexec::{self as model, Call, Exec, Kind, Observed, Returned, Scenario};
use scylla::errors::{BrokenConnectionErrorKind, DbError, RequestAttemptError, RequestError};
use scylla::policies::speculative_execution::SimpleSpeculativeExecutionPolicy;
use scylla::verif_hooks as hooks;
use serde_json::{Value, json};
use std::cell::RefCell;
use std::rc::Rc;
use std::time::Duration;

/// Completion delays in half-intervals (for interval 0: in ms). 0, ½, 1, 1½, 2, 3, 4½, 5
/// intervals: ties with every timer tick an execution can meet, ties between executions
/// started on different ticks, and "slower than everything else".
const DELAY_UNITS: [u64; 8] = [0, 1, 2, 3, 4, 6, 9, 10];
/// Intervals in ms. 0 = "all at once"; 2 and 10 keep half-intervals on tokio's 1 ms timer grid.
const INTERVALS: [u64; 3] = [10, 2, 0];

fn delay_ms(interval: u64, unit: u64) -> u64 {
    if interval == 0 { unit } else { unit * interval / 2 }
}

// ---------------------------------------------------------------------------------
// values handed to / received from the loop
// ---------------------------------------------------------------------------------

fn make_value(j: usize, kind: Kind) -> Option<Result<u32, RequestError>> {
    match kind {
        Kind::Success => Some(Ok(j as u32)),
        Kind::Definitive => Some(Err(RequestError::LastAttemptError(RequestAttemptError::DbError(
            if j % 2 == 0 { DbError::Invalid } else { DbError::SyntaxError },
            format!("exec {j}"),
        )))),
        Kind::Ignorable => Some(Err(RequestError::LastAttemptError(RequestAttemptError::BrokenConnectionError(
            BrokenConnectionErrorKind::UnexpectedStreamId(j as i16).into(),
        )))),
        Kind::IgnorableAnon => Some(Err(RequestError::LastAttemptError(RequestAttemptError::UnableToAllocStreamId))),
        Kind::Exhausted => None,
    }
}

fn classify(r: &Result<u32, RequestError>) -> Returned {
    match r {
        Ok(id) => Returned::Of { exec: *id as usize, kind: Kind::Success },
        Err(RequestError::EmptyPlan) => Returned::EmptyPlan,
        Err(RequestError::LastAttemptError(RequestAttemptError::UnableToAllocStreamId)) => Returned::Anon,
        Err(RequestError::LastAttemptError(RequestAttemptError::DbError(DbError::Invalid | DbError::SyntaxError, m))) => {
            match m.strip_prefix("exec ").and_then(|s| s.parse::<usize>().ok()) {
                Some(j) => Returned::Of { exec: j, kind: Kind::Definitive },
                None => Returned::Other(format!("{r:?}")),
            }
        }
        Err(RequestError::LastAttemptError(RequestAttemptError::BrokenConnectionError(e))) => {
            match e.downcast_ref::<BrokenConnectionErrorKind>() {
                Some(BrokenConnectionErrorKind::UnexpectedStreamId(j)) => Returned::Of { exec: *j as usize, kind: Kind::Ignorable },
                _ => Returned::Other(format!("{r:?}")),
            }
        }
        Err(e) => Returned::Other(format!("{e:?}")),
    }
}

// ---------------------------------------------------------------------------------
// one run in virtual time
// ---------------------------------------------------------------------------------

#[derive(Default)]
struct Log {
    calls: Vec<Call>,
    /// (virtual ms, execution index) in the order the executions' futures completed
    completions: Vec<(u64, usize)>,
}

struct Run {
    calls: Vec<Call>,
    completions: Vec<(u64, usize)>,
    obs: Observed,
}

fn new_runtime() -> tokio::runtime::Runtime {
    tokio::runtime::Builder::new_current_thread().enable_time().start_paused(true).build().expect("paused runtime")
}

async fn execution(
    log: Rc<RefCell<Log>>,
    t0: tokio::time::Instant,
    j: usize,
    deadline: tokio::time::Instant,
    delay: u64,
    kind: Kind,
) -> Option<Result<u32, RequestError>> {
    if delay > 0 {
        tokio::time::sleep_until(deadline).await;
    }
    let now = (tokio::time::Instant::now() - t0).as_millis() as u64;
    log.borrow_mut().completions.push((now, j));
    make_value(j, kind)
}

fn run_once(rt: &tokio::runtime::Runtime, sc: &Scenario) -> Run {
    let log = Rc::new(RefCell::new(Log::default()));
    let policy = SimpleSpeculativeExecutionPolicy { max_retry_count: sc.max, retry_interval: Duration::from_millis(sc.interval) };
    let res = fw::catch(|| {
        rt.block_on(async {
            let t0 = tokio::time::Instant::now();
            let generator = {
                let log = log.clone();
                move |speculative: bool| {
                    let now = tokio::time::Instant::now();
                    let j = {
                        let mut l = log.borrow_mut();
                        l.calls.push(Call { at: (now - t0).as_millis() as u64, speculative });
                        l.calls.len() - 1
                    };
                    let e = sc.exec(j);
                    execution(log.clone(), t0, j, now + Duration::from_millis(e.delay), e.delay, e.kind)
                }
            };
            // With the clock paused tokio advances virtual time only when nothing else can
            // run, so `Elapsed` after a virtual hour is a deterministic witness that the
            // loop was waiting on nothing (scripted delays are a few dozen ms).
            let r = tokio::time::timeout(Duration::from_secs(3600), hooks::speculative_execute(&policy, generator)).await;
            let at = (tokio::time::Instant::now() - t0).as_millis() as u64;
            (r, at)
        })
    });
    let obs = match res {
        Err(p) => Observed::Panicked(fw::first_line(&p)),
        Ok((Err(_elapsed), _)) => Observed::Hung,
        Ok((Ok(r), at)) => Observed::Returned { at, what: classify(&r) },
    };
    let l = log.borrow();
    Run { calls: l.calls.clone(), completions: l.completions.clone(), obs }
}

// ---------------------------------------------------------------------------------
// evaluation of one scenario
// ---------------------------------------------------------------------------------

fn scenario_json(sc: &Scenario) -> Value {
    json!({
        "part": "a",
        "max": sc.max,
        "interval_ms": sc.interval,
        "script": sc.script.iter().map(|e| json!([e.delay, e.kind.name()])).collect::<Vec<_>>(),
    })
}

fn scenario_from_json(r: &Value) -> Option<Scenario> {
    let script = r["script"]
        .as_array()?
        .iter()
        .map(|e| Some(Exec { delay: e[0].as_u64()?, kind: Kind::from_name(e[1].as_str()?)? }))
        .collect::<Option<Vec<_>>>()?;
    Some(Scenario { max: r["max"].as_u64()? as usize, interval: r["interval_ms"].as_u64()?, script })
}

fn scenario_key(sc: &Scenario) -> u64 {
    let mut b = vec![sc.max as u8, sc.interval as u8];
    for e in &sc.script {
        b.push(e.delay as u8);
        b.push(e.kind as u8);
    }
    fw::hash64(&b)
}

/// Returns false when the runtime must be replaced (panic / hang inside it).
fn evaluate(o: &mut Outcome, rt: &tokio::runtime::Runtime, sc: &Scenario, distinct_cap: usize) -> bool {
    let run = run_once(rt, sc);
    let nontrivial = run.calls.len() >= 2;
    let count = nontrivial && o.distinct.len() < distinct_cap;
    o.case(scenario_key(sc), count);
    if nontrivial && !count {
        o.note_add("nontrivial_cases_beyond_distinct_cap", 1);
    }
    // harness self-check: the synthetic executions completed when the script says
    for (t, j) in &run.completions {
        let want = run.calls.get(*j).map(|c| c.at + sc.exec(*j).delay);
        if want != Some(*t) {
            o.inconclusive(format!("harness self-check: execution #{j} completed at t={t}, scripted {want:?} ({})", scenario_json(sc)));
        }
    }
    let verdict = model::judge(sc, &run.calls, &run.obs);
    for c in &verdict.classes {
        o.class(c);
    }
    o.class(match sc.max {
        0 => "max=0",
        1 => "max=1",
        2 => "max=2",
        3 => "max=3",
        _ => "max=4",
    });
    // which order the loop took when its timer and an answer fell on the same instant
    if let Observed::Returned { at, what: Returned::Of { kind, .. } } = &run.obs {
        if kind.is_answer() && sc.interval > 0 && *at > 0 && *at % sc.interval == 0 && (*at / sc.interval) as usize <= sc.max {
            let exhausted_before = run.calls.iter().enumerate().any(|(j, c)| sc.exec(j).kind == Kind::Exhausted && c.at + sc.exec(j).delay < *at);
            let started_before = run.calls.iter().filter(|c| c.at < *at).count();
            if !exhausted_before && started_before < 1 + sc.max {
                o.class(if run.calls.last().map(|c| c.at) == Some(*at) { "tie-order:timer-first" } else { "tie-order:answer-first" });
            }
        }
    }
    for (sig, msg) in verdict.violations {
        let mut rep = scenario_json(sc);
        rep["observed_calls"] = json!(run.calls.iter().map(|c| json!([c.at, c.speculative])).collect::<Vec<_>>());
        rep["observed"] = json!(format!("{:?}", run.obs));
        o.violation(
            format!("specexec:{sig}"),
            format!(
                "{msg} [max={} interval={}ms script={:?} calls={:?} observed={:?}]",
                sc.max,
                sc.interval,
                sc.script.iter().map(|e| (e.delay, e.kind.name())).collect::<Vec<_>>(),
                run.calls.iter().map(|c| c.at).collect::<Vec<_>>(),
                run.obs
            ),
            rep,
        );
    }
    matches!(run.obs, Observed::Returned { .. })
}

// ---------------------------------------------------------------------------------
// enumeration
// ---------------------------------------------------------------------------------

fn options(kinds: &[Kind]) -> Vec<(u64, Kind)> {
    let mut v = Vec::new();
    for u in DELAY_UNITS {
        for k in kinds {
            v.push((u, *k));
        }
    }
    v
}

fn nth_script(opts: &[(u64, Kind)], interval: u64, len: usize, mut idx: u64) -> Vec<Exec> {
    let n = opts.len() as u64;
    let mut s = Vec::with_capacity(len);
    for _ in 0..len {
        let (u, k) = opts[(idx % n) as usize];
        idx /= n;
        s.push(Exec { delay: delay_ms(interval, u), kind: k });
    }
    s
}

fn random_scenario(rng: &mut Rng, max_lo: usize, max_hi: usize) -> Scenario {
    let max = rng.usize(max_lo, max_hi);
    let interval = *rng.pick(&INTERVALS);
    // a plan may be shorter than 1 + max: the missing executions find it exhausted
    let len = if rng.chance(1, 5) { rng.usize(1, max + 1) } else { max + 1 };
    // bias: mostly errors, so that many executions get started
    let script = (0..len)
        .map(|_| {
            let kind = match rng.below(10) {
                0 => Kind::Success,
                1 => Kind::Definitive,
                2..=4 => Kind::Ignorable,
                5..=6 => Kind::IgnorableAnon,
                7 => Kind::Exhausted,
                _ => *rng.pick(&Kind::ALL),
            };
            Exec { delay: delay_ms(interval, *rng.pick(&DELAY_UNITS)), kind }
        })
        .collect();
    Scenario { max, interval, script }
}

fn literal_samples(o: &mut Outcome, rt: &tokio::runtime::Runtime) {
    let lits: [(usize, u64, Vec<(u64, Kind)>, &str); 5] = [
        (2, 10, vec![(30, Kind::Ignorable), (5, Kind::Ignorable), (0, Kind::Success)], "third execution answers first at t=20"),
        (2, 10, vec![(10, Kind::Definitive), (0, Kind::Success), (0, Kind::Success)], "definitive error exactly on the first timer tick"),
        (4, 10, vec![(45, Kind::Ignorable), (0, Kind::Exhausted), (0, Kind::Success)], "plan exhausted at t=10: nothing more may start, last error at t=45"),
        (1, 10, vec![(5, Kind::IgnorableAnon), (5, Kind::Ignorable)], "nothing running between t=5 and t=10, yet one more may start"),
        (3, 0, vec![(0, Kind::Exhausted)], "interval 0, empty plan"),
    ];
    for (max, interval, s, what) in lits {
        let sc = Scenario { max, interval, script: s.into_iter().map(|(d, k)| Exec { delay: d, kind: k }).collect() };
        let run = run_once(rt, &sc);
        let v = model::judge(&sc, &run.calls, &run.obs);
        o.sample(json!({
            "case": what, "scenario": scenario_json(&sc),
            "observed_calls_ms": run.calls.iter().map(|c| c.at).collect::<Vec<_>>(),
            "observed": format!("{:?}", run.obs),
            "oracle_objections": v.violations.iter().map(|(s, _)| *s).collect::<Vec<_>>(),
        }));
        evaluate(o, rt, &sc, usize::MAX);
    }
}

fn replay(path: &str) -> Outcome {
    let mut o = Outcome::new();
    let v: Value = serde_json::from_str(&std::fs::read_to_string(path).expect("replay file")).expect("json");
    let Some(sc) = scenario_from_json(&v["replay"]) else {
        o.inconclusive("unrecognised replay file");
        return o;
    };
    // Same-instant events are taken by the loop in a pseudo-random order; repeat so that
    // every order shows up again.
    let mut rt = new_runtime();
    for _ in 0..256 {
        if !evaluate(&mut o, &rt, &sc, usize::MAX) {
            rt = new_runtime();
        }
    }
    o
}

const REQUIRED: [&str; 14] = [
    "returns-first-answer",
    "returns-last-ignorable-error",
    "returns-no-answer-at-all",
    "last-error-after-plan-exhausted",
    "last-error-after-all-retries-used",
    "answer-after-ignorable-error",
    "answer-while-others-running",
    "all-allowed-executions-started",
    "tie:answer-with-tick",
    "tie:ignorable-with-tick",
    "tie:exhausted-with-tick",
    "tie:two-completions",
    "tie-order:timer-first",
    "tie-order:answer-first",
];

fn part_a(ctx: &Ctx) -> Outcome {
    if let Some(p) = &ctx.replay {
        return replay(p);
    }
    // Exhaustive bound: every script of 1 + max executions for max <= exh_max.
    let (exh_max, kinds): (usize, Vec<Kind>) = if ctx.miri() {
        (1, vec![Kind::Success, Kind::Ignorable, Kind::Exhausted])
    } else if ctx.quick() {
        (2, Kind::ALL.to_vec())
    } else {
        (4, Kind::ALL.to_vec())
    };
    let opts = options(&kinds);
    // The 5-execution grid (max = 4) leaves out the payload-less ignorable error: it behaves
    // like `Ignorable` for the loop and is covered for <= 4 executions and by the random part.
    let kinds5: Vec<Kind> = kinds.iter().copied().filter(|k| *k != Kind::IgnorableAnon).collect();
    let opts5 = options(&kinds5);
    let workers = ctx.workers.max(1);
    // scale < 1 (sanitizer variants) thins the big grids deterministically
    let stride = if ctx.scale < 1.0 { (1.0 / ctx.scale).ceil() as u64 } else { 1 };
    let distinct_cap: usize = 4_000_000 / workers;
    let random_cases = if ctx.miri() { 200 } else { ctx.vol(1_000_000, 6_000_000) } / workers as u64;

    let mut out = fw::par(ctx, workers, |w, mut rng| {
        let mut o = Outcome::new();
        let mut rt = new_runtime();
        let mut bad_runs = 0u32;
        if w == 0 {
            literal_samples(&mut o, &rt);
        }
        'grid: for interval in INTERVALS {
            for max in 0..=exh_max {
                let len = max + 1;
                let opts = if max >= 4 { &opts5 } else { &opts };
                let total = (opts.len() as u64).pow(len as u32);
                let step = workers as u64 * if total > 100_000 { stride } else { 1 };
                let mut idx = w as u64;
                while idx < total {
                    let sc = Scenario { max, interval, script: nth_script(opts, interval, len, idx) };
                    if !evaluate(&mut o, &rt, &sc, distinct_cap) {
                        rt = new_runtime();
                        bad_runs += 1;
                        if bad_runs > 200 {
                            // the loop is broken; enough evidence, do not burn the time budget
                            break 'grid;
                        }
                    }
                    idx += step;
                }
                o.note_add(&format!("grid_scripts_max{max}"), total.div_ceil(step));
            }
        }
        // random schedules beyond the exhaustive bound (quick) / with short plans (both)
        let (lo, hi) = if exh_max >= 4 { (1, 4) } else { (exh_max + 1, 4) };
        for _ in 0..random_cases {
            if bad_runs > 200 {
                break;
            }
            let sc = random_scenario(&mut rng, lo, hi);
            if !evaluate(&mut o, &rt, &sc, distinct_cap) {
                rt = new_runtime();
                bad_runs += 1;
            }
        }
        o.class("random-schedules");
        o
    });
    for c in REQUIRED {
        out.require_class(c);
    }
    out.exhaustive = Some(stride == 1);
    out.note(
        "exhaustive_part",
        json!(format!(
            "every script for max 0..={exh_max} (1..={} executions) x intervals {:?} ms x per-execution (delay in {{0,.5,1,1.5,2,3,4.5,5}} intervals) x {} outcomes ({} for max = 4){}; same-instant orders are sampled, not enumerated",
            exh_max + 1,
            INTERVALS,
            kinds.len(),
            kinds5.len(),
            if stride > 1 { format!(" (thinned 1/{stride} by --scale)") } else { String::new() }
        )),
    );
    out
}

// ---------------------------------------------------------------------------------
// PART B — end to end (real Session + mock cluster): idempotence gate, distinct plan
// targets, overlap of frames. To be filled in by the coordinator; keep `part_a` as is.
// ---------------------------------------------------------------------------------
fn part_b(ctx: &Ctx) -> Outcome {
    crate::checks::retry_e2e::run_c13_b(ctx)
}

/// Part named by `--part`, or, when replaying, by the replay file itself.
fn selected_part(ctx: &Ctx) -> Option<String> {
    if let Some(p) = &ctx.part {
        return Some(p.clone());
    }
    let path = ctx.replay.as_ref()?;
    let v: Value = serde_json::from_str(&std::fs::read_to_string(path).ok()?).ok()?;
    v["replay"]["part"].as_str().map(|s| s.to_owned())
}

pub fn run(ctx: &Ctx) -> Outcome {
    match selected_part(ctx).as_deref() {
        // no part named: everything that is built (today: part a only)
        None | Some("a") => part_a(ctx),
        Some("b") => part_b(ctx),
        Some(p) => {
            let mut o = Outcome::new();
            o.inconclusive(format!("C13 has no part {p:?}"));
            o
        }
    }
}
