//! Hook-free cross-checks through a real Session against the mock cluster:
//!  * C04 part b — `ClusterState::get_token_endpoints` on metadata FETCHED from mock nodes
//!    (system.peers / system_schema.keyspaces parsing included) equals the placement model;
//!  * C11 part b — source ports of shard-aware connections opened by a real pool with a
//!    custom `ShardAwarePortRange` lie in the range and select the shard they end up on.

use super::e2e::*;
use crate::fw::{self, Ctx, Outcome};
use crate::gen_::topology::{self, St};
use crate::mock::log::Ev;
use crate::mock::*;
use crate::refmodel::replication;
use scylla::client::PoolSize;
use scylla::routing::{ShardAwarePortRange, Token};
use serde_json::json;
use std::collections::BTreeSet;
use std::num::NonZeroUsize;
use std::sync::atomic::Ordering;
use std::sync::Arc;
use std::time::Duration;

pub fn run_c04_b(ctx: &Ctx) -> Outcome {
    let mut o = Outcome::new();
    let rt = runtime(ctx.workers.min(8));
    let mut rng = ctx.rng(404);
    let n = ctx.vol(40, 1500);
    let mut worlds = Vec::new();
    for _ in 0..n {
        // mock nodes all need a datacenter and at least one token for the driver to list them as peers
        let mut topo = topology::gen_topology(&mut rng, 7, false);
        topo.nodes.retain(|n| !n.tokens.is_empty());
        if topo.nodes.is_empty() {
            continue;
        }
        let strategies = topology::gen_strategies(&mut rng, &topo);
        let tokens = topology::query_tokens(&mut rng, &topo, 24);
        worlds.push((topo, strategies, tokens));
    }
    for chunk in worlds.chunks(6) {
        let res: Vec<_> = rt.block_on(async {
            let mut js = Vec::new();
            for (topo, strategies, tokens) in chunk.iter().cloned() {
                js.push(tokio::spawn(async move {
                    let nodes: Vec<NodeSpec> = topo
                        .nodes
                        .iter()
                        .map(|n| NodeSpec { dc: n.dc.clone(), rack: n.rack.clone(), tokens: n.tokens.clone(), sharding: None, features: Features::default() })
                        .collect();
                    let mut keyspaces = Vec::new();
                    let mut kept: Vec<(String, St)> = Vec::new();
                    for (k, st) in strategies.iter().enumerate() {
                        let name = format!("ks{k}");
                        let def = match st {
                            St::Simple(rf) => KeyspaceDef::simple(&name, *rf),
                            St::Nts(m) => KeyspaceDef::nts(&name, &m.iter().map(|(d, r)| (d.as_str(), *r)).collect::<Vec<_>>()),
                            _ => continue,
                        };
                        keyspaces.push(def.with_table(TableDef::new("t", &[("pk", "int")], &[("v", "int")])));
                        kept.push((name, st.clone()));
                    }
                    let cluster = MockCluster::start(ClusterSpec { nodes, keyspaces, cluster_name: "c04b".into() }, Arc::new(DefaultHandler)).await;
                    let ids: Vec<uuid::Uuid> = cluster.nodes().iter().map(|n| n.host_id).collect();
                    let out = match connect(&cluster, |b| b).await {
                        Err(e) => Err(e),
                        Ok(session) => {
                            let st = session.get_cluster_state();
                            let mut rows = Vec::new();
                            for (name, s) in &kept {
                                for t in &tokens {
                                    let got: Vec<usize> = st
                                        .get_token_endpoints(name, "t", Token::new(*t))
                                        .iter()
                                        .map(|(n, _)| ids.iter().position(|i| *i == n.host_id).unwrap_or(usize::MAX))
                                        .collect();
                                    rows.push((name.clone(), s.clone(), *t, got));
                                }
                            }
                            let known = st.get_nodes_info().len();
                            Ok((rows, known))
                        }
                    };
                    let viol = cluster.log().violations();
                    cluster.shutdown();
                    (topo, out, viol)
                }));
            }
            let mut v = Vec::new();
            for j in js {
                if let Ok(x) = j.await {
                    v.push(x);
                }
            }
            v
        });
        for (topo, out, viol) in res {
            for v in viol {
                o.node_violation("c04b", &v, json!({"part": "b"}));
            }
            match out {
                Err(e) => o.inconclusive(format!("C04 part b world could not start: {e}")),
                Ok((rows, known)) => {
                    if known != topo.nodes.len() {
                        o.violation("c04b:fetched-topology-differs", format!("the cluster state knows {known} nodes, the mock cluster serves {}", topo.nodes.len()), json!({"part": "b", "topology": topo.to_json()}));
                        continue;
                    }
                    for (ks, st, token, got) in rows {
                        let tok = topology::norm(token);
                        let want: Vec<usize> = match &st {
                            St::Simple(rf) => replication::simple(&topo.nodes, tok, *rf),
                            St::Nts(m) => replication::nts(&topo.nodes, tok, m),
                            _ => continue,
                        };
                        o.case(fw::hash64(format!("{:?}{ks}{token}", topo.to_json()).as_bytes()), !want.is_empty());
                        o.class(match st {
                            St::Simple(_) => "b:simple",
                            _ => "b:nts",
                        });
                        let (g, w): (BTreeSet<usize>, BTreeSet<usize>) = (got.iter().copied().collect(), want.iter().copied().collect());
                        if g != w || got.len() != want.len() {
                            o.violation(
                                "c04b:get_token_endpoints-vs-model",
                                format!("keyspace {ks} ({st:?}), token {token}: get_token_endpoints names nodes {got:?}, the placement model {want:?}"),
                                json!({"part": "b", "topology": topo.to_json(), "strategy": st.to_json(), "token": token}),
                            );
                        }
                    }
                }
            }
        }
        if fw::stop_early(&mut o) {
            break;
        }
    }
    o.sample(json!({"part": "b", "worlds": worlds.len(), "first_world": worlds.first().map(|w| w.0.to_json())}));
    for c in ["b:simple", "b:nts"] {
        o.require_class(c);
    }
    o
}

pub fn run_c11_b(ctx: &Ctx) -> Outcome {
    let mut o = Outcome::new();
    let rt = runtime(4);
    let mut rng = ctx.rng(1111);
    let n = ctx.vol(24, 600);
    for _ in 0..n {
        let nr_shards = rng.usize(2, 9) as u16;
        // ranges of a few hundred ports somewhere in the allowed span, incl. ones ending at 65535
        let lo = match rng.below(3) {
            0 => 65535 - rng.range(40, 400) as u16,
            1 => 1024 + rng.below(200) as u16,
            _ => rng.range(20000, 60000) as u16,
        };
        let hi = (lo as u32 + rng.range(nr_shards as i64 * 4, 500) as u32).min(65535) as u16;
        let per_shard = rng.usize(1, 2);
        let r: Result<(Vec<(u16, Option<u16>, bool)>, bool), String> = rt.block_on(async {
            let spec = ClusterSpec {
                nodes: vec![NodeSpec { dc: Some("dc1".into()), rack: Some("r1".into()), tokens: vec![0], sharding: Some(ShardSpec { nr_shards, msb_ignore: 12, shard_aware_port: true }), features: Features::default() }],
                keyspaces: vec![KeyspaceDef::simple("ks", 1)],
                cluster_name: "c11b".into(),
            };
            let cluster = MockCluster::start(spec, Arc::new(DefaultHandler)).await;
            let range = ShardAwarePortRange::new(lo..=hi).map_err(|e| format!("range refused: {e}"))?;
            let session = connect(&cluster, |b| b.shard_aware_local_port_range(range).pool_size(PoolSize::PerShard(NonZeroUsize::new(per_shard).unwrap()))).await?;
            let c = cluster.clone();
            let full = cluster
                .wait_until(Duration::from_secs(10), move || {
                    let conns: Vec<_> = c.established(0).into_iter().filter(|x| !x.registered.load(Ordering::SeqCst)).collect();
                    (0..nr_shards).all(|s| conns.iter().filter(|x| x.shard == Some(s)).count() >= per_shard)
                })
                .await;
            let mut accepts = Vec::new();
            for l in cluster.log().snapshot() {
                if let Ev::Accept { src_port, shard, shard_aware_port, .. } = l.ev {
                    accepts.push((src_port, shard, shard_aware_port));
                }
            }
            drop(session);
            cluster.shutdown();
            Ok((accepts, full))
        });
        match r {
            Err(e) => o.inconclusive(format!("C11 part b case could not start: {e}")),
            Ok((accepts, full)) => {
                let replay = json!({"part": "b", "nr_shards": nr_shards, "lo": lo, "hi": hi, "per_shard": per_shard});
                o.case(fw::hash64(format!("{nr_shards}:{lo}:{hi}:{per_shard}").as_bytes()), nr_shards > 1);
                let sa: Vec<_> = accepts.iter().filter(|a| a.2).collect();
                if sa.is_empty() {
                    o.inconclusive("no connection reached the shard-aware port");
                    continue;
                }
                o.class("b:shard-aware-connections-observed");
                if hi == 65535 {
                    o.class("b:range-ends-at-65535");
                }
                for (port, shard, _) in &sa {
                    if *port < lo || *port > hi {
                        o.violation("c11b:source-port-outside-range", format!("a shard-aware connection came from source port {port}, outside the configured range {lo}..={hi}"), replay.clone());
                    }
                    // the mock assigns the shard exactly as ScyllaDB does (port mod shard count); a pool that fills
                    // every shard through this port can only do so with ports congruent to the shards it wants
                    debug_assert_eq!(Some(port % nr_shards), *shard);
                }
                if !full {
                    o.violation("c11b:pool-not-filled-per-shard", format!("with {nr_shards} shards and port range {lo}..={hi} the pool did not reach {per_shard} connection(s) per shard within 10 s"), replay.clone());
                } else {
                    o.class("b:every-shard-reached");
                }
                if o.want_sample() {
                    o.sample(json!({"case": replay, "shard_aware_ports": sa.iter().map(|a| a.0).collect::<Vec<_>>()}));
                }
            }
        }
    }
    // A node that comes back with the same shard count but another ignore-MSB setting: the shard the driver
    // computes for a token (observed as the shard of the connection a token-aware request travels on) must be the
    // one ScyllaDB assigns under the NEW setting.
    let n2 = ctx.vol(10, 240);
    for i in 0..n2 {
        let nr_shards = rng.usize(2, 6) as u16;
        let (msb_a, msb_b) = *rng.pick(&[(12u8, 0u8), (0, 12), (12, 4), (4, 20)]);
        let seed = ctx.seed.wrapping_mul(48271).wrapping_add(i);
        let r: Result<(Vec<(i64, Option<u16>)>, Vec<(i64, Option<u16>)>), String> = rt.block_on(async {
            let echo = Echo::new(EchoMode::Immediate);
            let mut spec = single_node_spec();
            spec.nodes[0].sharding = Some(ShardSpec { nr_shards, msb_ignore: msb_a, shard_aware_port: true });
            let cluster = MockCluster::start(spec, echo.clone()).await;
            let session = connect(&cluster, |b| b.pool_size(PoolSize::PerShard(NonZeroUsize::new(1).unwrap()))).await?;
            let full = |c: &MockCluster| {
                let conns: Vec<_> = c.established(0).into_iter().filter(|x| !x.registered.load(Ordering::SeqCst)).collect();
                (0..nr_shards).all(|s| conns.iter().any(|x| x.shard == Some(s)))
            };
            {
                let c = cluster.clone();
                if !cluster.wait_until(Duration::from_secs(15), move || full(&c)).await {
                    return Err("pool did not fill".into());
                }
            }
            let prepared = session.prepare(format!("{ECHO_QUERY_PREFIX}?")).await.map_err(|e| e.to_string())?;
            let mut r2 = fw::Rng::new(seed, 3);
            let shard_of_frame = |cluster: &MockCluster, id: u64| -> Option<u16> {
                cluster.log().snapshot().iter().rev().find_map(|l| match &l.ev {
                    Ev::Recv { request, shard, .. } => match &**request {
                        crate::wire::request::Request::Execute { params, .. } => match params.values.as_ref()?.first()? {
                            crate::wire::prim::Value::Bytes(b) if b.len() == 8 && u64::from_be_bytes(b.as_slice().try_into().ok()?) == id => Some(*shard),
                            _ => None,
                        },
                        _ => None,
                    },
                    _ => None,
                })?
            };
            let mut before = Vec::new();
            for _ in 0..12 {
                let id = next_op();
                let _ = session.execute_unpaged(&prepared, (id as i64,)).await;
                before.push((crate::refmodel::murmur3::murmur3_token(&(id as i64).to_be_bytes()), shard_of_frame(&cluster, id)));
            }
            // the node restarts with another ignore-MSB setting
            cluster.stop_node(0, CloseHow::Rst);
            tokio::time::sleep(Duration::from_millis(60 + r2.below(60))).await;
            cluster.node(0).spec.write().unwrap().sharding = Some(ShardSpec { nr_shards, msb_ignore: msb_b, shard_aware_port: true });
            cluster.start_node(0).await;
            {
                let c = cluster.clone();
                if !cluster.wait_until(Duration::from_secs(20), move || full(&c)).await {
                    return Err("pool did not refill after the restart".into());
                }
            }
            settle(cluster.log(), Duration::from_millis(150), Duration::from_secs(5), || false).await;
            let mut after = Vec::new();
            for _ in 0..24 {
                let id = next_op();
                let _ = session.execute_unpaged(&prepared, (id as i64,)).await;
                after.push((crate::refmodel::murmur3::murmur3_token(&(id as i64).to_be_bytes()), shard_of_frame(&cluster, id)));
            }
            drop(session);
            cluster.shutdown();
            Ok((before, after))
        });
        match r {
            Err(e) => o.inconclusive(format!("C11 part b resharding case could not run: {e}")),
            Ok((before, after)) => {
                let replay = json!({"part": "b", "resharding": {"nr_shards": nr_shards, "msb_before": msb_a, "msb_after": msb_b, "seed": seed}});
                o.case(fw::hash64(format!("reshard:{nr_shards}:{msb_a}:{msb_b}:{seed}").as_bytes()), true);
                o.class("b:node-back-with-another-ignore-msb");
                for (phase, msb, v) in [("before the restart", msb_a, &before), ("after the restart", msb_b, &after)] {
                    for (tok, got) in v {
                        let Some(got) = got else { continue };
                        let want = crate::refmodel::sharding::shard_of(*tok, nr_shards, msb) as u16;
                        if *got != want {
                            o.violation(
                                "c11b:shard-of-token-after-resharding",
                                format!("{phase} (shards {nr_shards}, ignore-MSB {msb}): the request for token {tok} travelled on a connection of shard {got}; ScyllaDB assigns shard {want}"),
                                replay.clone(),
                            );
                        } else if phase.starts_with("after") {
                            o.class("b:shard-follows-the-new-ignore-msb");
                        }
                    }
                }
            }
        }
        if fw::stop_early(&mut o) {
            break;
        }
    }
    for c in ["b:shard-aware-connections-observed", "b:every-shard-reached", "b:range-ends-at-65535", "b:node-back-with-another-ignore-msb", "b:shard-follows-the-new-ignore-msb"] {
        o.require_class(c);
    }
    o
}
