//! C02 — every response reaches exactly the request it answers; a stream id is never carried by
//! two requests that are both still unanswered by the server.
//!
//! Part "a" (this file, socket-free): model-based testing of the REAL private
//! `ResponseHandlerMap` through `verif_hooks::HandlerMapProbe`. Random and structured walks over
//! allocate / orphan / lookup / into_handlers; after every operation the observable result is
//! compared with `refmodel::streams` and (every op for short walks, every k ops for long ones) the
//! structural invariant walker of the probe must pass.
//!
//! Part "b" (end-to-end against a mock node) is built elsewhere.
use crate::fw::{self, Ctx, Outcome, Rng};
use crate::refmodel::streams::{Expected, IDS, Model, St};
use scylla::verif_hooks::{HandlerMapProbe, LookupOutcome};
use serde_json::{Value, json};
use std::collections::VecDeque;

/// Set of stream ids with O(1) insert / remove / random pick (harness-side sampling aid).
struct IdSet {
    items: Vec<i16>,
    /// position + 1 in `items`; 0 = absent (zero-initialised: cheap under Miri)
    pos: Vec<u32>,
}

impl IdSet {
    fn new() -> Self {
        IdSet { items: Vec::new(), pos: vec![0; IDS] }
    }
    fn len(&self) -> usize {
        self.items.len()
    }
    fn insert(&mut self, id: i16) {
        if self.pos[id as usize] == 0 {
            self.items.push(id);
            self.pos[id as usize] = self.items.len() as u32;
        }
    }
    fn remove(&mut self, id: i16) {
        let p = self.pos[id as usize];
        if p > 0 {
            let last = *self.items.last().unwrap();
            self.items.swap_remove(p as usize - 1);
            if last != id {
                self.pos[last as usize] = p;
            }
            self.pos[id as usize] = 0;
        }
    }
    fn pick(&self, rng: &mut Rng) -> Option<i16> {
        if self.items.is_empty() { None } else { Some(self.items[rng.below(self.items.len() as u64) as usize]) }
    }
}

// coverage classes (counted in an array; flushed into the Outcome at the end of a walk)
const CLASSES: [&str; 20] = [
    "allocate:free-id-available",
    "allocate:exhausted-none",
    "allocate:first-id-of-a-64-block",
    "lookup:waiting",
    "lookup:orphaned",
    "lookup:free-id",
    "orphan:waiting-request",
    "orphan:never-allocated-request",
    "orphan:already-answered-request",
    "orphan:already-orphaned-request",
    "orphan:late-after-id-was-reallocated",
    "reuse:id-after-delivered-response",
    "reuse:id-after-orphaned-response",
    "exhaustion:all-32768-ids-in-use",
    "into_handlers:checked",
    "invariants:checked",
    "lookup:reallocated-id-after-late-orphan",
    "allocate:request-orphaned-before-allocation",
    "allocate:while-orphans-hold-ids",
    "lookup:orphaned-at-exhaustion-then-refill",
];
const C_ALLOC_OK: usize = 0;
const C_ALLOC_NONE: usize = 1;
const C_ALLOC_BLOCK: usize = 2;
const C_LOOKUP_WAITING: usize = 3;
const C_LOOKUP_ORPHANED: usize = 4;
const C_LOOKUP_FREE: usize = 5;
const C_ORPHAN_WAITING: usize = 6;
const C_ORPHAN_NEVER: usize = 7;
const C_ORPHAN_ANSWERED: usize = 8;
const C_ORPHAN_TWICE: usize = 9;
const C_ORPHAN_LATE_REUSED: usize = 10;
const C_REUSE_DELIVERED: usize = 11;
const C_REUSE_ORPHANED: usize = 12;
const C_EXHAUSTED: usize = 13;
const C_INTO_HANDLERS: usize = 14;
const C_INVARIANTS: usize = 15;
const C_LOOKUP_AFTER_LATE_ORPHAN: usize = 16;
const C_ALLOC_PRE_ORPHANED: usize = 17;
const C_ALLOC_WITH_ORPHANS: usize = 18;
const C_ORPHAN_LOOKUP_REFILL: usize = 19;

struct Walker {
    probe: Option<HandlerMapProbe>,
    model: Model,
    rng: Rng,
    waiting: IdSet,
    orphaned: IdSet,
    /// how the previous life of an id ended: 0 never used, 1 response delivered, 2 orphaned response
    last_end: Vec<u8>,
    /// ids that were re-allocated and then hit by a late orphan of their previous owner
    late_orphan_hit: Vec<bool>,
    next_req: u64,
    /// recently answered requests (request id, the stream id it had)
    answered: VecDeque<(u64, i16)>,
    /// recently orphaned requests
    orphaned_reqs: VecDeque<u64>,
    /// request ids that got an orphan notice before they were allocated, to be allocated later
    pre_orphaned: Vec<u64>,
    counters: [u64; CLASSES.len()],
    hash: u64,
    ops: u64,
    inv_every: u64,
    use_invariants: bool,
    dead: bool,
    out: Outcome,
    replay: Value,
    trace: Option<Vec<String>>,
    want_trace: bool,
}

impl Walker {
    fn new(rng: Rng, inv_every: u64, use_invariants: bool, replay: Value) -> Self {
        Walker {
            probe: Some(HandlerMapProbe::new()),
            model: Model::new(),
            rng,
            waiting: IdSet::new(),
            orphaned: IdSet::new(),
            last_end: vec![0; IDS],
            late_orphan_hit: vec![false; IDS],
            next_req: 1,
            answered: VecDeque::new(),
            orphaned_reqs: VecDeque::new(),
            pre_orphaned: Vec::new(),
            counters: [0; CLASSES.len()],
            hash: 0xcbf29ce484222325,
            ops: 0,
            inv_every: inv_every.max(1),
            use_invariants,
            dead: false,
            out: Outcome::new(),
            replay,
            trace: None,
            want_trace: false,
        }
    }

    /// Starts recording the next operations (for a literal sample in the evidence).
    fn start_trace(&mut self) {
        if self.want_trace && self.trace.is_none() {
            self.trace = Some(Vec::new());
        }
    }

    fn fail(&mut self, sig: &str, msg: String) {
        let ops = self.ops;
        let used = self.model.used();
        self.out.violation(sig, format!("{msg} (operation #{ops} of the walk; model: {used} ids in use)"), self.replay.clone());
        self.dead = true;
    }

    fn step(&mut self, code: u64, arg: u64) {
        self.ops += 1;
        self.hash = (self.hash ^ (code << 56) ^ arg).wrapping_mul(0x100000001b3);
    }

    fn tr(&mut self, s: impl FnOnce() -> String) {
        if let Some(t) = &mut self.trace {
            if t.len() < 14 {
                t.push(s());
            }
        }
    }

    fn after_op(&mut self, op: &'static str) {
        if self.dead || !self.use_invariants || self.ops % self.inv_every != 0 {
            return;
        }
        self.invariants(op);
    }

    fn invariants(&mut self, op: &'static str) {
        if self.dead || !self.use_invariants {
            return;
        }
        self.counters[C_INVARIANTS] += 1;
        let probe = self.probe.as_ref().unwrap();
        match fw::catch(|| probe.check_invariants()) {
            Ok(Ok(())) => {}
            Ok(Err(e)) => self.fail(&format!("rhm:invariant-broken:after-{op}"), format!("structural invariant of ResponseHandlerMap broken after {op}: {e}")),
            Err(p) => self.fail(&format!("rhm:invariant-walker-panic:after-{op}"), format!("check_invariants panicked after {op}: {p}")),
        }
    }

    /// allocate(next request id) — or a given request id
    fn alloc_req(&mut self, req: u64) -> Option<i16> {
        if self.dead {
            return None;
        }
        self.step(1, req);
        let probe = self.probe.as_mut().unwrap();
        let got = match fw::catch(|| probe.allocate(req)) {
            Ok(g) => g,
            Err(p) => {
                self.fail("rhm:allocate:panic", format!("allocate(request {req}) panicked: {p}"));
                return None;
            }
        };
        match got {
            None => {
                if !self.model.full() {
                    let used = self.model.used();
                    self.fail("rhm:allocate:none-although-ids-are-free", format!("allocate(request {req}) reported exhaustion although only {used} of {IDS} stream ids are owed a response"));
                    return None;
                }
                self.counters[C_ALLOC_NONE] += 1;
                self.tr(|| format!("allocate(r{req}) -> None"));
            }
            Some(id) => {
                if id < 0 {
                    self.fail("rhm:allocate:negative-id", format!("allocate(request {req}) returned the negative stream id {id}"));
                    return None;
                }
                match self.model.allocate_at(id, req) {
                    Ok(()) => {}
                    Err(St::Waiting(other)) => {
                        self.fail("rhm:allocate:double-booked-waiting-id", format!("allocate(request {req}) returned stream id {id}, which still carries the unanswered request {other}"));
                        return None;
                    }
                    Err(_) => {
                        self.fail("rhm:allocate:double-booked-orphaned-id", format!("allocate(request {req}) returned stream id {id}, which belongs to an abandoned request the server has not answered yet"));
                        return None;
                    }
                }
                self.counters[C_ALLOC_OK] += 1;
                if id % 64 == 0 {
                    self.counters[C_ALLOC_BLOCK] += 1;
                }
                if self.orphaned.len() > 0 {
                    self.counters[C_ALLOC_WITH_ORPHANS] += 1;
                }
                match self.last_end[id as usize] {
                    1 => self.counters[C_REUSE_DELIVERED] += 1,
                    2 => self.counters[C_REUSE_ORPHANED] += 1,
                    _ => {}
                }
                self.late_orphan_hit[id as usize] = false;
                self.waiting.insert(id);
                if self.model.full() {
                    self.counters[C_EXHAUSTED] += 1;
                }
                self.tr(|| format!("allocate(r{req}) -> stream {id}"));
            }
        }
        self.after_op("allocate");
        got
    }

    fn alloc(&mut self) -> Option<i16> {
        // a request whose orphan notice came before its allocation is allocated like any other
        let req = if !self.pre_orphaned.is_empty() && self.rng.chance(1, 2) {
            self.counters[C_ALLOC_PRE_ORPHANED] += 1;
            self.pre_orphaned.swap_remove(0)
        } else {
            let r = self.next_req;
            self.next_req += 1;
            r
        };
        self.alloc_req(req)
    }

    fn lookup(&mut self, id: i16) -> bool {
        if self.dead {
            return false;
        }
        self.step(2, id as u64);
        let state = self.model.state(id);
        let want = self.model.lookup(id);
        let probe = self.probe.as_mut().unwrap();
        let got = match fw::catch(|| probe.lookup(id)) {
            Ok(g) => g,
            Err(p) => {
                self.fail("rhm:lookup:panic", format!("lookup(stream {id}) panicked: {p}"));
                return false;
            }
        };
        let same = match (want, got) {
            (Expected::Orphaned, LookupOutcome::Orphaned) => true,
            (Expected::Missing, LookupOutcome::Missing) => true,
            (Expected::Handler(a), LookupOutcome::Handler(b)) => a == b,
            _ => false,
        };
        if !same {
            let sig = match (want, got) {
                (Expected::Handler(_), LookupOutcome::Handler(_)) => "rhm:lookup:delivered-to-wrong-request",
                (Expected::Handler(_), LookupOutcome::Orphaned) => "rhm:lookup:waiting-request-treated-as-orphaned",
                (Expected::Handler(_), LookupOutcome::Missing) => "rhm:lookup:waiting-request-lost",
                (Expected::Orphaned, LookupOutcome::Handler(_)) => "rhm:lookup:orphaned-id-delivered-to-a-request",
                (Expected::Orphaned, _) => "rhm:lookup:orphaned-id-reported-missing",
                (Expected::Missing, LookupOutcome::Handler(_)) => "rhm:lookup:free-id-delivered-to-a-request",
                (Expected::Missing, _) => "rhm:lookup:free-id-reported-orphaned",
            };
            let late = if self.late_orphan_hit[id as usize] { "; the previous owner of this id was orphaned late, after the id had been re-allocated" } else { "" };
            self.fail(sig, format!("lookup(stream {id}) returned {got:?}, the model ({state:?}) expects {want:?}{late}"));
            return false;
        }
        match want {
            Expected::Handler(r) => {
                self.counters[C_LOOKUP_WAITING] += 1;
                if self.late_orphan_hit[id as usize] {
                    self.counters[C_LOOKUP_AFTER_LATE_ORPHAN] += 1;
                }
                self.waiting.remove(id);
                self.last_end[id as usize] = 1;
                self.answered.push_back((r, id));
                if self.answered.len() > 256 {
                    self.answered.pop_front();
                }
            }
            Expected::Orphaned => {
                self.counters[C_LOOKUP_ORPHANED] += 1;
                self.orphaned.remove(id);
                self.last_end[id as usize] = 2;
            }
            Expected::Missing => self.counters[C_LOOKUP_FREE] += 1,
        }
        self.tr(|| format!("lookup(stream {id}) -> {got:?}"));
        self.after_op("lookup");
        true
    }

    fn orphan(&mut self, req: u64) {
        if self.dead {
            return;
        }
        self.step(3, req);
        let probe = self.probe.as_mut().unwrap();
        if let Err(p) = fw::catch(|| probe.orphan(req)) {
            self.fail("rhm:orphan:panic", format!("orphan(request {req}) panicked: {p}"));
            return;
        }
        match self.model.orphan(req) {
            Some(id) => {
                self.counters[C_ORPHAN_WAITING] += 1;
                self.waiting.remove(id);
                self.orphaned.insert(id);
                self.orphaned_reqs.push_back(req);
                if self.orphaned_reqs.len() > 256 {
                    self.orphaned_reqs.pop_front();
                }
                self.tr(|| format!("orphan(r{req})  [stream {id} stays reserved]"));
            }
            None => self.tr(|| format!("orphan(r{req})  [no-op]")),
        }
        // orphan() returns nothing: its effect is observed by the later lookups / allocations
        self.after_op("orphan");
    }

    /// late orphan notice for a request that has been answered already
    fn late_orphan(&mut self) {
        if self.answered.is_empty() {
            return;
        }
        let i = self.rng.below(self.answered.len() as u64) as usize;
        let (req, id) = self.answered[i];
        if let St::Waiting(_) = self.model.state(id) {
            self.counters[C_ORPHAN_LATE_REUSED] += 1;
            self.late_orphan_hit[id as usize] = true;
        } else {
            self.counters[C_ORPHAN_ANSWERED] += 1;
        }
        self.orphan(req);
    }

    fn orphan_unknown(&mut self) {
        let req = match self.rng.below(4) {
            0 => u64::MAX - self.rng.below(3),
            1 => 0,
            _ => {
                // a request id that will be allocated later (its caller gave up before the write)
                let r = self.next_req;
                self.next_req += 1;
                self.pre_orphaned.push(r);
                r
            }
        };
        self.counters[C_ORPHAN_NEVER] += 1;
        self.orphan(req);
    }

    fn orphan_again(&mut self) {
        if self.orphaned_reqs.is_empty() {
            return;
        }
        let i = self.rng.below(self.orphaned_reqs.len() as u64) as usize;
        let req = self.orphaned_reqs[i];
        self.counters[C_ORPHAN_TWICE] += 1;
        self.orphan(req);
    }

    fn orphan_waiting(&mut self) -> Option<i16> {
        let id = self.waiting.pick(&mut self.rng)?;
        if let St::Waiting(r) = self.model.state(id) {
            self.orphan(r);
            return Some(id);
        }
        None
    }

    fn req_of(&self, id: i16) -> Option<u64> {
        if let St::Waiting(r) = self.model.state(id) { Some(r) } else { None }
    }

    fn fill(&mut self, upto: usize) {
        while !self.dead && self.model.used() < upto {
            if self.alloc().is_none() {
                break;
            }
        }
    }

    /// End of a walk: into_handlers == the Waiting set.
    fn finish(mut self, kind: &str, nontrivial_extra: bool) -> Outcome {
        if !self.dead {
            self.invariants("end-of-walk");
        }
        if !self.dead {
            let probe = self.probe.as_ref().unwrap();
            if let Ok(n) = fw::catch(|| probe.old_orphans_count()) {
                if n > self.orphaned.len() {
                    let have = self.orphaned.len();
                    self.fail("rhm:old_orphans_count:more-than-orphans", format!("old_orphans_count() = {n} but only {have} stream ids are orphaned"));
                }
            }
        }
        if !self.dead {
            self.step(4, 0);
            let probe = self.probe.take().unwrap();
            match fw::catch(|| probe.into_handlers()) {
                Err(p) => self.fail("rhm:into_handlers:panic", format!("into_handlers panicked: {p}")),
                Ok(mut got) => {
                    got.sort_unstable();
                    let want = self.model.waiting();
                    self.counters[C_INTO_HANDLERS] += 1;
                    if got != want {
                        let extra: Vec<_> = got.iter().filter(|x| !want.contains(x)).take(4).collect();
                        let missing: Vec<_> = want.iter().filter(|x| !got.contains(x)).take(4).collect();
                        self.fail(
                            "rhm:into_handlers:not-the-waiting-set",
                            format!("into_handlers returned {} (stream, request) pairs, the model has {} waiting; not waiting but returned: {extra:?}; waiting but not returned: {missing:?}", got.len(), want.len()),
                        );
                    }
                }
            }
        }
        let nontrivial = nontrivial_extra || (self.counters[C_ORPHAN_WAITING] > 0 && (self.counters[C_REUSE_DELIVERED] + self.counters[C_REUSE_ORPHANED]) > 0);
        let key = fw::hash64(format!("{kind}:{:x}:{}", self.hash, self.ops).as_bytes());
        let mut o = std::mem::take(&mut self.out);
        o.case(key, nontrivial);
        o.evals(self.ops.saturating_sub(1));
        o.class(&format!("walk:{kind}"));
        for (i, c) in self.counters.iter().enumerate() {
            if *c > 0 {
                o.class_n(CLASSES[i], *c);
            }
        }
        o.note_add("operations_total", self.ops);
        if let Some(t) = self.trace.take() {
            if o.want_sample() {
                o.sample(json!({"walk": kind, "first_operations": t}));
            }
        }
        o
    }
}

// ------------------------------------------------------------------------------------------
// walks
// ------------------------------------------------------------------------------------------

const TARGETS: [usize; 16] = [0, 1, 2, 63, 64, 65, 127, 128, 129, 300, 1000, 4095, 4097, 32700, 32767, 32768];

/// Random walk: a drifting occupancy target plus a fixed mix of all operation kinds.
fn random_walk(w: &mut Walker, ops: u64, max_target: usize) {
    let pick_target = |rng: &mut Rng| -> usize {
        loop {
            let t = *rng.pick(&TARGETS);
            if t <= max_target {
                return t;
            }
        }
    };
    let mut target = pick_target(&mut w.rng);
    while !w.dead && w.ops < ops {
        if w.rng.chance(1, 400) {
            target = pick_target(&mut w.rng);
        }
        let in_use = w.model.used();
        let r = w.rng.below(100);
        if r < 45 {
            // drift towards the target
            if in_use < target || (in_use == target && w.rng.chance(1, 8)) {
                w.alloc();
            } else if in_use > 0 {
                // answer somebody: a waiting or an orphaned id
                let id = if w.rng.chance(1, 3) { w.orphaned.pick(&mut w.rng).or_else(|| w.waiting.pick(&mut w.rng)) } else { w.waiting.pick(&mut w.rng).or_else(|| w.orphaned.pick(&mut w.rng)) };
                if let Some(id) = id {
                    w.lookup(id);
                }
            } else {
                w.alloc();
            }
        } else if r < 57 {
            w.alloc();
        } else if r < 67 {
            if let Some(id) = w.waiting.pick(&mut w.rng) {
                w.lookup(id);
            }
        } else if r < 73 {
            if let Some(id) = w.orphaned.pick(&mut w.rng) {
                w.lookup(id);
            }
        } else if r < 76 {
            // a response on an id that is owed nothing (or a random id)
            let id = w.rng.below(IDS as u64) as i16;
            let id = if w.rng.bool() { id } else { (id as usize % (in_use + 70).min(IDS)) as i16 };
            w.lookup(id);
        } else if r < 86 {
            w.orphan_waiting();
        } else if r < 92 {
            w.late_orphan();
        } else if r < 95 {
            w.orphan_unknown();
        } else if r < 97 {
            w.orphan_again();
        } else {
            // answer + immediate re-allocation + late orphan of the previous owner + answer the new owner
            if let Some(id) = w.waiting.pick(&mut w.rng) {
                let r1 = w.req_of(id);
                w.lookup(id);
                let got = w.alloc();
                if let (Some(r1), Some(got)) = (r1, got) {
                    if got == id {
                        w.counters[C_ORPHAN_LATE_REUSED] += 1;
                        w.late_orphan_hit[id as usize] = true;
                    } else {
                        w.counters[C_ORPHAN_ANSWERED] += 1;
                    }
                    w.orphan(r1);
                    if w.rng.bool() {
                        w.lookup(got);
                    }
                }
            }
        }
    }
}

fn lookup_order(rng: &mut Rng, n: usize, which: u64) -> Vec<i16> {
    let mut v: Vec<i16> = (0..n as i32).map(|x| x as i16).collect();
    match which % 5 {
        0 => v.reverse(),
        1 => rng.shuffle(&mut v),
        // column-wise: bit 0 of every 64-block, then bit 1, ...
        2 => v.sort_by_key(|x| (*x as usize % 64, *x as usize / 64)),
        // evens descending, then odds ascending
        3 => v.sort_by_key(|x| if *x % 2 == 0 { (0, -(*x as i32)) } else { (1, *x as i32) }),
        // block boundaries first, then a shuffle of the rest
        _ => {
            rng.shuffle(&mut v);
            v.sort_by_key(|x| !matches!(*x as usize % 64, 0 | 63));
        }
    }
    v
}

/// K1: fill `space` ids (all 32768 unless tiny), then answer in an adversarial order; now and then
/// re-allocate right away.
fn walk_exhaust_adversarial(w: &mut Walker, space: usize) {
    w.fill(space);
    w.start_trace();
    if space == IDS {
        for _ in 0..3 {
            w.alloc();
        }
    }
    let which = w.rng.below(5);
    let order = lookup_order(&mut w.rng, space, which);
    // a seeded part of the requests is abandoned first
    let abandon = *w.rng.pick(&[0u64, 1, 4, 50]);
    for id in &order {
        if w.dead {
            return;
        }
        if abandon > 0 && w.rng.below(100) < abandon {
            if let Some(r) = w.req_of(*id) {
                w.orphan(r);
            }
        }
        w.lookup(*id);
        if w.rng.chance(1, 8) {
            // exactly the freed ids are available again
            w.alloc();
            if space == IDS && w.rng.chance(1, 4) {
                w.alloc();
            }
        }
        if w.rng.chance(1, 64) {
            w.lookup(*id);
        }
    }
}

/// K2: exhaustion / partial release / refill cycles.
fn walk_refill_cycles(w: &mut Walker, space: usize, cycles: usize) {
    w.fill(space);
    w.start_trace();
    for _ in 0..cycles {
        if w.dead {
            return;
        }
        let m = (*w.rng.pick(&[1usize, 2, 63, 64, 65, 640, 5000, 20000])).min(space);
        for _ in 0..m {
            let Some(id) = w.waiting.pick(&mut w.rng).or_else(|| w.orphaned.pick(&mut w.rng)) else { break };
            match w.rng.below(4) {
                0 | 1 => {
                    w.lookup(id);
                }
                2 => {
                    if let Some(r) = w.req_of(id) {
                        w.orphan(r);
                    }
                    w.lookup(id);
                }
                _ => {
                    // abandoned and never answered in this cycle: stays reserved
                    if let Some(r) = w.req_of(id) {
                        w.orphan(r);
                    }
                }
            }
        }
        // refill: succeeds exactly as many times as ids are free (checked inside alloc)
        w.fill(space);
        if space == IDS {
            w.alloc();
            w.alloc();
        }
    }
    // the server finally answers all abandoned requests
    let mut ids = w.orphaned.items.clone();
    w.rng.shuffle(&mut ids);
    for id in ids {
        w.lookup(id);
    }
    w.fill(space);
}

/// K3: everything in flight is abandoned; ids come back one by one as the server answers.
fn walk_orphan_all(w: &mut Walker, space: usize, rounds: usize) {
    w.fill(space);
    let mut ids = w.waiting.items.clone();
    w.rng.shuffle(&mut ids);
    for id in &ids {
        if let Some(r) = w.req_of(*id) {
            w.orphan(r);
        }
    }
    w.start_trace();
    for _ in 0..3 {
        w.alloc(); // None at full size: abandoned ids are still reserved
    }
    for _ in 0..rounds {
        if w.dead {
            return;
        }
        let Some(id) = w.orphaned.pick(&mut w.rng) else { break };
        let old = w.orphaned_reqs.back().copied();
        w.lookup(id); // Orphaned
        w.counters[C_ORPHAN_LOOKUP_REFILL] += 1;
        let got = w.alloc(); // at full size this must be `id` (the only free one); the model checks it is free
        w.alloc();
        if let Some(got) = got {
            if w.rng.bool() {
                if let Some(o) = old {
                    w.counters[C_ORPHAN_TWICE] += 1;
                    w.orphan(o);
                }
            }
            match w.rng.below(3) {
                0 => {
                    w.lookup(got); // Handler(new)
                    w.lookup(got); // Missing
                    w.alloc();
                }
                1 => {
                    if let Some(r) = w.req_of(got) {
                        w.orphan(r);
                    }
                }
                _ => {}
            }
        }
    }
}

/// K4: response, immediate re-allocation of the same id, late orphan notice of the previous owner.
fn walk_late_orphan(w: &mut Walker, space: usize, rounds: usize) {
    w.fill(space);
    w.start_trace();
    for _ in 0..rounds {
        if w.dead {
            return;
        }
        let Some(id) = w.waiting.pick(&mut w.rng) else { break };
        let Some(r1) = w.req_of(id) else { break };
        w.lookup(id); // Handler(r1)
        let got = w.alloc(); // at full size: the same id
        let Some(got) = got else { continue };
        if got == id {
            w.counters[C_ORPHAN_LATE_REUSED] += 1;
            w.late_orphan_hit[id as usize] = true;
        } else {
            w.counters[C_ORPHAN_ANSWERED] += 1;
        }
        w.orphan(r1); // late: must not disturb the new owner
        match w.rng.below(4) {
            0 | 1 => {
                w.lookup(got); // Handler(new owner)
                w.alloc();
            }
            2 => {
                if let Some(r2) = w.req_of(got) {
                    w.orphan(r2);
                }
                w.lookup(got); // Orphaned
                w.alloc();
            }
            _ => {} // stays waiting; checked by into_handlers at the end
        }
    }
}

/// K5: the edges of the 64-id bitmap blocks.
fn walk_block_edges(w: &mut Walker) {
    // orphan notices on an empty map
    w.orphan(0);
    w.orphan(u64::MAX);
    w.orphan_unknown();
    w.fill(200);
    w.start_trace();
    for round in 0..6 {
        let mut edge: Vec<i16> = vec![0, 62, 63, 64, 65, 126, 127, 128, 129, 191, 192, 199];
        if round % 2 == 1 {
            edge.reverse();
        }
        if round >= 4 {
            w.rng.shuffle(&mut edge);
        }
        for id in &edge {
            if round % 3 == 2 {
                if let Some(r) = w.req_of(*id) {
                    w.orphan(r);
                }
            }
            w.lookup(*id);
        }
        for _ in 0..edge.len() / 2 {
            w.alloc();
        }
        w.late_orphan();
        w.fill(200);
    }
}

#[derive(Clone, Copy, Debug, PartialEq, Eq)]
enum Kind {
    Random,
    ExhaustAdversarial,
    RefillCycles,
    OrphanAll,
    LateOrphan,
    BlockEdges,
}

impl Kind {
    fn name(self) -> &'static str {
        match self {
            Kind::Random => "random",
            Kind::ExhaustAdversarial => "exhaust-then-adversarial-lookups",
            Kind::RefillCycles => "exhaust-release-refill-cycles",
            Kind::OrphanAll => "all-abandoned-at-exhaustion",
            Kind::LateOrphan => "answer-reallocate-late-orphan",
            Kind::BlockEdges => "bitmap-block-edges",
        }
    }
    fn from_name(s: &str) -> Option<Kind> {
        [Kind::Random, Kind::ExhaustAdversarial, Kind::RefillCycles, Kind::OrphanAll, Kind::LateOrphan, Kind::BlockEdges].into_iter().find(|k| k.name() == s)
    }
}

#[derive(Clone, Debug)]
struct WalkCfg {
    kind: Kind,
    seed: u64,
    /// random: number of operations; structured: number of rounds / cycles
    n: u64,
    /// random: largest occupancy target; structured: number of ids to fill (32768 = exhaustion)
    space: usize,
    inv_every: u64,
}

impl WalkCfg {
    fn to_json(&self) -> Value {
        json!({"walk": self.kind.name(), "walk_seed": self.seed, "n": self.n, "space": self.space, "inv_every": self.inv_every})
    }
    fn from_json(v: &Value) -> Option<WalkCfg> {
        Some(WalkCfg {
            kind: Kind::from_name(v["walk"].as_str()?)?,
            seed: v["walk_seed"].as_u64()?,
            n: v["n"].as_u64()?,
            space: v["space"].as_u64()? as usize,
            inv_every: v["inv_every"].as_u64().unwrap_or(1),
        })
    }
}

fn run_walk(cfg: &WalkCfg, use_invariants: bool, trace: bool) -> Outcome {
    let mut w = Walker::new(Rng::new(cfg.seed, 2), cfg.inv_every, use_invariants, cfg.to_json());
    w.want_trace = trace;
    if cfg.kind == Kind::Random {
        w.start_trace();
    }
    match cfg.kind {
        Kind::Random => random_walk(&mut w, cfg.n, cfg.space),
        Kind::ExhaustAdversarial => walk_exhaust_adversarial(&mut w, cfg.space),
        Kind::RefillCycles => walk_refill_cycles(&mut w, cfg.space, cfg.n as usize),
        Kind::OrphanAll => walk_orphan_all(&mut w, cfg.space, cfg.n as usize),
        Kind::LateOrphan => walk_late_orphan(&mut w, cfg.space, cfg.n as usize),
        Kind::BlockEdges => walk_block_edges(&mut w),
    }
    let full = cfg.space == IDS && cfg.kind != Kind::Random;
    let ops = w.ops;
    let r = w.finish(cfg.kind.name(), full);
    if std::env::var_os("VERIF_C02_PROGRESS").is_some() {
        eprintln!("[C02] walk {} done: {} ops", cfg.kind.name(), ops);
    }
    r
}

fn structured_cfg(kind: Kind, seed: u64, space: usize, tiny: bool) -> WalkCfg {
    let n = match kind {
        Kind::RefillCycles => {
            if tiny {
                3
            } else {
                6
            }
        }
        Kind::OrphanAll | Kind::LateOrphan => {
            if tiny {
                40
            } else {
                6000
            }
        }
        _ => 0,
    };
    let inv_every = if tiny { 3 } else if kind == Kind::BlockEdges { 1 } else { 4099 };
    WalkCfg { kind, seed, n, space, inv_every }
}

fn replay(path: &str, use_invariants: bool) -> Outcome {
    let mut o = Outcome::new();
    let v: Value = serde_json::from_str(&std::fs::read_to_string(path).expect("replay file")).expect("json");
    match WalkCfg::from_json(&v["replay"]) {
        Some(cfg) => o.merge(run_walk(&cfg, use_invariants, false)),
        None => o.inconclusive("unrecognised replay file"),
    }
    o
}

/// Part "a" (socket-free); public so that the dispatcher can combine it with part "b".
pub fn run_a(ctx: &Ctx) -> Outcome {
    let use_invariants = ctx.extra.get("no-invariants").is_none();
    if let Some(p) = &ctx.replay {
        return replay(p, use_invariants);
    }
    let tiny = ctx.miri();
    let workers = if tiny { 1 } else { ctx.workers };
    let budget = ctx.vol(8_000_000, 200_000_000) / workers as u64;
    let structured: [Kind; 5] = [Kind::ExhaustAdversarial, Kind::RefillCycles, Kind::OrphanAll, Kind::LateOrphan, Kind::BlockEdges];
    let mut out = fw::par(ctx, workers, |wi, mut rng| {
        let mut o = Outcome::new();
        // structured walks: quick = one kind per worker (all kinds covered with >= 5 workers),
        // thorough / tiny = every kind on every worker (different seeds: different orders)
        let kinds: Vec<Kind> = if ctx.quick() && !tiny && workers >= structured.len() { vec![structured[wi % structured.len()]] } else { structured.to_vec() };
        for k in kinds {
            let space = if tiny { 70 } else { IDS };
            let mut cfg = structured_cfg(k, rng.u64(), if k == Kind::BlockEdges { 200 } else { space }, tiny);
            if tiny {
                // Miri: the invariant walker costs ~30 operations' worth of interpretation
                cfg.inv_every = 25;
                cfg.n = cfg.n.min(15);
            }
            o.merge(run_walk(&cfg, use_invariants, wi < structured.len()));
            if !tiny && k != Kind::BlockEdges {
                // the same scenario away from exhaustion (ids are not forced, lowest-free policy decides)
                let cfg = structured_cfg(k, rng.u64(), *rng.pick(&[70usize, 129, 1000]), true);
                o.merge(run_walk(&cfg, use_invariants, false));
            }
        }
        // random walks for the rest of the budget
        let mut done = 0u64;
        let mut i = 0u64;
        while done < budget {
            i += 1;
            let cfg = if tiny {
                WalkCfg { kind: Kind::Random, seed: rng.u64(), n: 200, space: 129, inv_every: if ctx.miri() { 25 } else { 5 } }
            } else {
                match rng.below(10) {
                    // short, invariants after every operation
                    0..=5 => WalkCfg { kind: Kind::Random, seed: rng.u64(), n: rng.range(20, 2000) as u64, space: *rng.pick(&[2usize, 65, 129, 300, 1000]), inv_every: 1 },
                    // medium
                    6..=8 => WalkCfg { kind: Kind::Random, seed: rng.u64(), n: rng.range(5_000, 40_000) as u64, space: *rng.pick(&[300usize, 1000, 4097]), inv_every: rng.range(50, 400) as u64 },
                    // long, up to and beyond exhaustion
                    _ => WalkCfg { kind: Kind::Random, seed: rng.u64(), n: rng.range(150_000, 400_000) as u64, space: IDS, inv_every: rng.range(3000, 9000) as u64 },
                }
            };
            done += cfg.n;
            o.merge(run_walk(&cfg, use_invariants, wi == structured.len() % workers && i == 1));
            if tiny && i >= ctx.vol(2, 8) {
                break;
            }
        }
        o
    });
    for c in CLASSES {
        if tiny && matches!(c, "exhaustion:all-32768-ids-in-use" | "allocate:exhausted-none" | "lookup:orphaned-at-exhaustion-then-refill") {
            continue;
        }
        if !use_invariants && c == "invariants:checked" {
            continue;
        }
        out.require_class(c);
    }
    for k in structured {
        out.require_class(&format!("walk:{}", k.name()));
    }
    out.require_class("walk:random");
    out.exhaustive = Some(false);
    out.note("id_space", json!(if tiny { "tiny: at most 200 of the 32768 ids in use (Miri)" } else { "structured walks fill all 32768 ids" }));
    out.note("invariant_walker", json!(if use_invariants { "on" } else { "off (--no-invariants)" }));
    out
}

pub fn run(ctx: &Ctx) -> Outcome {
    match ctx.part.as_deref() {
        None | Some("a") => run_a(ctx),
        Some("b") => {
            let mut o = Outcome::new();
            o.inconclusive("C02 part b (end-to-end against a mock node) is not built yet");
            o
        }
        Some(p) => {
            let mut o = Outcome::new();
            o.inconclusive(format!("C02 has no part {p:?}"));
            o
        }
    }
}
