//! Exhaustive part: (A) every history of inserts of length <= L over an n-token universe,
//! compared after every step; (B) every transition (state, insert) where `state` ranges
//! over ALL sets of pairwise disjoint tablets over a 10-token universe (10 946 states x 55
//! inserts) — since the comparison after each step pins the driver's complete per-table
//! state (the dump) to the model's, (B) covers each single step of every insert history
//! of any length over that universe.
use super::world::{self, Counters, Fail, NodeView, Op, PeerSpec, KsSpec};
use super::{base_peers, ks, runtime};
use crate::fw::{self, Ctx, Outcome, Rng};
use crate::refmodel::tablets as model;
use bytes::Bytes;
use model::{Host, MNode, MTablet};
use scylla::cluster::metadata::Strategy;
use scylla::verif_hooks::{ClusterProbe, KeyspaceDesc, PeerDesc};
use serde_json::json;
use std::collections::{BTreeMap, HashMap};
use std::sync::Arc;

pub const REL: [&str; 13] = [
    "rel:before", "rel:meets", "rel:overlaps", "rel:starts", "rel:during", "rel:finishes", "rel:equal",
    "rel:after", "rel:met-by", "rel:overlapped-by", "rel:started-by", "rel:contains", "rel:finished-by",
];

/// Allen relation of the new inclusive integer range [f,l] to an existing one [a,b]
/// ("meets" = adjacent without sharing a token).
pub fn relation(f: i64, l: i64, a: i64, b: i64) -> usize {
    if l < a {
        return if l.checked_add(1) == Some(a) { 1 } else { 0 };
    }
    if b < f {
        return if b.checked_add(1) == Some(f) { 8 } else { 7 };
    }
    use std::cmp::Ordering::*;
    match (f.cmp(&a), l.cmp(&b)) {
        (Equal, Equal) => 6,
        (Equal, Less) => 3,
        (Equal, Greater) => 10,
        (Greater, Equal) => 5,
        (Less, Equal) => 12,
        (Greater, Less) => 4,
        (Less, Greater) => 11,
        (Less, Less) => 2,
        (Greater, Greater) => 9,
    }
}

#[derive(Default)]
pub struct Classes {
    pub rel: [u64; 13],
    pub share_last: u64,
    pub share_first: u64,
    pub discards: [u64; 4],
    pub ends_max: u64,
    pub starts_min1: u64,
    pub single: u64,
}

impl Classes {
    pub fn note_insert(&mut self, live: &[MTablet], f: i64, l: i64) {
        let mut d = 0usize;
        for t in live {
            let r = relation(f, l, t.first, t.last);
            self.rel[r] += 1;
            if t.overlaps(f, l) {
                d += 1;
                if l == t.first && f < t.first && l < t.last {
                    self.share_last += 1;
                }
                if f == t.last && t.first < f && t.last < l {
                    self.share_first += 1;
                }
            }
        }
        self.discards[d.min(3)] += 1;
        if l == i64::MAX {
            self.ends_max += 1;
        }
        if f == i64::MIN + 1 {
            self.starts_min1 += 1;
        }
        if f == l {
            self.single += 1;
        }
    }
    pub fn flush(&self, o: &mut Outcome) {
        for (i, n) in self.rel.iter().enumerate() {
            if *n > 0 {
                o.class_n(REL[i], *n);
            }
        }
        let mut put = |name: &str, n: u64| {
            if n > 0 {
                o.class_n(name, n)
            }
        };
        put("rel:shares-only-its-last-token", self.share_last);
        put("rel:shares-only-its-first-token", self.share_first);
        put("insert:discards-0", self.discards[0]);
        put("insert:discards-1", self.discards[1]);
        put("insert:discards-2", self.discards[2]);
        put("insert:discards-3+", self.discards[3]);
        put("range:ends-at-i64::MAX", self.ends_max);
        put("range:starts-at-i64::MIN+1", self.starts_min1);
        put("range:single-token", self.single);
    }
}

/// The n tokens of a universe variant, ascending.
pub fn universe(variant: &str, n: usize) -> Vec<i64> {
    let n_i = n as i64;
    let mut v: Vec<i64> = match variant {
        // consecutive integers around zero: adjacency (meets) happens, neighbours are universe tokens
        "dense" => (0..n_i).map(|k| k - n_i / 2).collect(),
        // far apart: there is always a gap between different universe tokens
        "spread" => (0..n_i).map(|k| i64::MIN / 2 + 12345 + k * (i64::MAX / n_i)).collect(),
        // consecutive, the highest one is i64::MAX
        "top" => (0..n_i).map(|k| i64::MAX - (n_i - 1) + k).collect(),
        // consecutive, the lowest one is i64::MIN + 1 (the lowest token a tablet can start at)
        "bottom" => (0..n_i).map(|k| i64::MIN + 1 + k).collect(),
        // both ends of the ring and the middle
        _ => {
            let pref = [i64::MIN + 1, i64::MAX, i64::MIN + 2, i64::MAX - 1, 0, 1, -1, i64::MIN + 3, i64::MAX - 2, 2];
            pref[..n.min(10)].to_vec()
        }
    };
    v.sort_unstable();
    v.dedup();
    assert_eq!(v.len(), n);
    v
}

pub fn queries_for(u: &[i64]) -> Vec<i64> {
    let mut q = vec![i64::MIN, i64::MIN + 1, i64::MAX, 0];
    for &x in u {
        q.push(x);
        q.push(x.saturating_sub(1));
        q.push(x.saturating_add(1));
    }
    q.sort_unstable();
    q.dedup();
    q
}

pub struct Env<'r> {
    pub rt: &'r tokio::runtime::Runtime,
    pub probe: ClusterProbe,
    pub view: NodeView,
    pub nodes: BTreeMap<Host, MNode>,
    pub hosts: Vec<Host>,
    pub strategy: Strategy,
    pub dcs: Vec<String>,
    pub peers: Vec<PeerSpec>,
    pub kss: Vec<KsSpec>,
    pd: Vec<PeerDesc>,
    kd: Vec<KeyspaceDesc>,
    table_ctr: u64,
    pub table: String,
    pub cnt: Counters,
    pub cls: Classes,
    pub distinct_cap: u64,
    pub failures: u64,
    pub steps: u64,
}

impl<'r> Env<'r> {
    pub fn new(rt: &'r tokio::runtime::Runtime) -> Self {
        let peers = base_peers();
        let kss = vec![ks("kx", true, &[])];
        let pd: Vec<PeerDesc> = peers.iter().enumerate().map(|(i, p)| world::peer_desc(p, i)).collect();
        let kd: Vec<KeyspaceDesc> = kss.iter().map(world::ks_desc).collect();
        let probe = rt.block_on(ClusterProbe::new(&pd, &kd, Some(Arc::new(world::RejectAll))));
        let view = NodeView::of(&probe);
        let nodes = peers.iter().map(|p| (p.host, MNode { dc: p.dc.clone(), rack: p.rack.clone(), addr: p.addr })).collect();
        Env {
            rt,
            view,
            probe,
            nodes,
            hosts: peers.iter().map(|p| p.host).collect(),
            strategy: Strategy::SimpleStrategy { replication_factor: 1 },
            dcs: vec!["dc1".into(), "dc2".into(), "no-such-dc".into()],
            peers,
            kss,
            pd,
            kd,
            table_ctr: 0,
            table: String::new(),
            cnt: Counters::new(),
            cls: Classes::default(),
            distinct_cap: 150_000,
            failures: 0,
            steps: 0,
        }
    }

    /// A table the driver has never heard of. Every 512 tables a real refresh (whose
    /// schema lists no table) makes the driver forget all of them.
    pub fn fresh_table(&mut self) {
        self.table_ctr += 1;
        if self.table_ctr % 512 == 0 {
            let (rt, probe, pd, kd) = (self.rt, &mut self.probe, &self.pd, &self.kd);
            rt.block_on(probe.refresh(pd, kd));
            self.view = NodeView::of(&self.probe);
        }
        self.table = format!("t{}", self.table_ctr);
    }

    /// replica list of the tablet learnt at depth k: three hosts spanning dc1 / dc2 / no
    /// datacenter, shard numbers identify the step
    pub fn reps(&self, k: usize) -> Vec<(Host, i32)> {
        let h = &self.hosts;
        vec![(h[k % 6], k as i32 + 1), (h[(k + 2) % 6], k as i32 + 1), (h[(k + 3) % 6], k as i32 + 101)]
    }

    pub fn add(&mut self, payload: &HashMap<String, Bytes>) -> Result<(), Fail> {
        let (probe, table) = (&mut self.probe, &self.table);
        match fw::catch(|| probe.add_tablet_from_payload("kx", table, payload)) {
            Ok(Ok(true)) => Ok(()),
            Ok(Ok(false)) => Err(Fail { sig: "payload:ignored".into(), msg: "payload under the tablet key reported as absent".into() }),
            Ok(Err(e)) => Err(Fail { sig: "payload:admissible-refused".into(), msg: format!("admissible payload refused: {e}") }),
            Err(p) => Err(Fail { sig: "payload:panic".into(), msg: format!("feeding a payload panicked: {p}") }),
        }
    }

    pub fn check(&mut self, live: &[MTablet], discarded: &[MTablet], queries: &[i64]) -> Result<(), Fail> {
        world::check_table(&self.probe, &self.strategy, &self.view, &self.nodes, "kx", &self.table, Some(live), discarded, queries, &self.dcs, &mut self.cnt)
    }

    pub fn case(&mut self, o: &mut Outcome, key: impl FnOnce() -> u64) {
        self.steps += 1;
        if self.distinct_cap > 0 {
            self.distinct_cap -= 1;
            o.case(key(), true);
        } else {
            o.evals(1);
        }
    }
}

fn mtablet(env: &Env, f: i64, l: i64, k: usize, seq: u64) -> MTablet {
    let full: Vec<(Host, u32)> = env.reps(k).into_iter().map(|(h, s)| (h, s as u32)).collect();
    MTablet { first: f, last: l, visible: full.clone(), full, unresolved: false, seq }
}

/// model step on a plain vector: (new live set, discarded)
fn learn(live: &[MTablet], t: MTablet) -> (Vec<MTablet>, Vec<MTablet>) {
    let mut keep = Vec::with_capacity(live.len() + 1);
    let mut gone = Vec::new();
    for x in live {
        if x.overlaps(t.first, t.last) {
            gone.push(x.clone());
        } else {
            keep.push(x.clone());
        }
    }
    keep.push(t);
    (keep, gone)
}

fn replay_ops(env: &Env, u: &[i64], pairs: &[(usize, usize)], seq: &[usize], ks_of_depth: impl Fn(usize) -> usize) -> Vec<Op> {
    seq.iter()
        .enumerate()
        .map(|(k, p)| {
            let (i, j) = pairs[*p];
            Op::Add { ks: "kx".into(), table: "t".into(), first: u[i] - 1, last: u[j], replicas: env.reps(ks_of_depth(k)) }
        })
        .collect()
}

fn report(env: &mut Env, o: &mut Outcome, what: &str, f: &Fail, ops: Vec<Op>, queries: &[i64]) {
    env.failures += 1;
    if o.violations.iter().any(|v| v.signature == f.sig) {
        return;
    }
    let n = ops.len();
    super::report(o, what, n.saturating_sub(1), f, &env.peers, &env.kss, &ops, queries);
}

pub struct Level {
    pub variant: &'static str,
    pub n: usize,
    pub len: usize,
}

fn all_pairs(n: usize) -> Vec<(usize, usize)> {
    let mut v = Vec::new();
    for i in 0..n {
        for j in i..n {
            v.push((i, j));
        }
    }
    v
}

/// (A) all histories of exactly `len` inserts (every proper prefix is compared too, once).
fn run_level(env: &mut Env, o: &mut Outcome, lvl: &Level, w: usize, workers: usize) -> (u64, u64) {
    let u = universe(lvl.variant, lvl.n);
    let pairs = all_pairs(lvl.n);
    let t = pairs.len();
    let queries = queries_for(&u);
    let len = lvl.len;
    let pre = len.min(2);
    let units = t.pow(pre as u32);
    let payloads: Vec<Vec<HashMap<String, Bytes>>> = (0..len)
        .map(|k| pairs.iter().map(|(i, j)| world::payload_of(model::enc_tablet(u[*i] - 1, u[*j], &env.reps(k)))).collect())
        .collect();
    let lvl_key = fw::hash_str(&format!("A:{}:{}:{}", lvl.variant, lvl.n, len));
    let (mut histories, mut steps) = (0u64, 0u64);
    let mut unit = w;
    while unit < units {
        let mut seq = vec![0usize; len];
        if pre == 2 {
            seq[0] = unit / t;
            seq[1] = unit % t;
        } else {
            seq[0] = unit;
        }
        let mut stack: Vec<Vec<MTablet>> = vec![Vec::new()];
        let mut lit = model::Literal::default();
        let mut common = 0usize;
        'unit: loop {
            env.fresh_table();
            stack.truncate(common + 1);
            lit.truncate(common);
            histories += 1;
            for k in 0..len {
                let (i, j) = pairs[seq[k]];
                let r = env.add(&payloads[k][seq[k]]);
                if k < common && r.is_ok() {
                    continue;
                }
                let (f, l) = (u[i], u[j]);
                let mut res = r;
                if res.is_ok() {
                    if k >= common {
                        env.cls.note_insert(&stack[k], f, l);
                        let (live, gone) = learn(&stack[k], mtablet(env, f, l, k, k as u64 + 1));
                        lit.learn(f, l, k as u64 + 1);
                        res = env.check(&live, &gone, &queries);
                        // model self-check: the literal reading of the statement agrees
                        for &q in &queries {
                            let t = scylla::routing::Token::new(q).value();
                            if model::lookup_in(&live, t).map(|m| m.seq) != lit.lookup(t) {
                                o.inconclusive("harness: the two formulations of the reference model disagree");
                            }
                        }
                        stack.push(live);
                        steps += 1;
                        let sk = &seq[..=k];
                        env.case(o, || fw::hash64(format!("{lvl_key}:{sk:?}").as_bytes()));
                    }
                }
                if let Err(fl) = res {
                    let ops = replay_ops(env, &u, &pairs, &seq[..=k], |d| d);
                    report(env, o, &format!("exhaustive histories {} n={} len={}", lvl.variant, lvl.n, len), &fl, ops, &queries);
                    if env.failures > 200 {
                        return (histories, steps);
                    }
                    // skip the subtree below the failing prefix
                    for x in seq[k + 1..].iter_mut() {
                        *x = t - 1;
                    }
                    break;
                }
            }
            // next history of this unit (positions pre.. as an odometer)
            let mut pos = len;
            loop {
                if pos == pre {
                    break 'unit;
                }
                pos -= 1;
                if seq[pos] + 1 < t {
                    seq[pos] += 1;
                    for x in seq[pos + 1..].iter_mut() {
                        *x = 0;
                    }
                    common = pos;
                    break;
                }
            }
        }
        unit += workers;
    }
    (histories, steps)
}

/// All sets of pairwise disjoint inclusive ranges over indices 0..n.
pub fn all_states(n: usize) -> Vec<Vec<(usize, usize)>> {
    fn rec(p: usize, n: usize, cur: &mut Vec<(usize, usize)>, out: &mut Vec<Vec<(usize, usize)>>) {
        if p >= n {
            out.push(cur.clone());
            return;
        }
        rec(p + 1, n, cur, out);
        for q in p..n {
            cur.push((p, q));
            rec(q + 1, n, cur, out);
            cur.pop();
        }
    }
    let mut out = Vec::new();
    rec(0, n, &mut Vec::new(), &mut out);
    out
}

/// (B) every (state, insert) transition over the n-token universe of `variant`.
fn run_closure(env: &mut Env, o: &mut Outcome, variant: &'static str, n: usize, w: usize, workers: usize, rng: &mut Rng) -> (u64, u64) {
    let u = universe(variant, n);
    let pairs = all_pairs(n);
    let queries = queries_for(&u);
    let states = all_states(n);
    let maxk = n + 1;
    let payloads: Vec<Vec<HashMap<String, Bytes>>> = (0..maxk)
        .map(|k| pairs.iter().map(|(i, j)| world::payload_of(model::enc_tablet(u[*i] - 1, u[*j], &env.reps(k)))).collect())
        .collect();
    let pair_idx = |p: (usize, usize)| pairs.iter().position(|x| *x == p).unwrap();
    let key = fw::hash_str(&format!("B:{variant}:{n}"));
    let (mut transitions, mut nstates) = (0u64, 0u64);
    for (si, st) in states.iter().enumerate() {
        if si % workers != w {
            continue;
        }
        nstates += 1;
        for (ins, &(i, j)) in pairs.iter().enumerate() {
            // build the state in a random learning order
            let mut order: Vec<usize> = (0..st.len()).collect();
            rng.shuffle(&mut order);
            env.fresh_table();
            let mut live: Vec<MTablet> = Vec::new();
            let mut res: Result<(), Fail> = Ok(());
            let mut seq: Vec<usize> = Vec::new();
            for (k, &x) in order.iter().enumerate() {
                let p = pair_idx(st[x]);
                seq.push(p);
                res = env.add(&payloads[k][p]);
                if res.is_err() {
                    break;
                }
                live.push(mtablet(env, u[st[x].0], u[st[x].1], k, k as u64 + 1));
            }
            let k = st.len();
            if res.is_ok() && !live.is_empty() {
                // the state itself (ranges and replicas only; lookups were compared when it was a target)
                res = env.check(&live, &[], &[]);
            }
            if res.is_ok() {
                seq.push(ins);
                res = env.add(&payloads[k][ins]);
                if res.is_ok() {
                    env.cls.note_insert(&live, u[i], u[j]);
                    let (nl, gone) = learn(&live, mtablet(env, u[i], u[j], k, k as u64 + 1));
                    res = env.check(&nl, &gone, &queries);
                }
            }
            transitions += 1;
            env.case(o, || fw::hash64(format!("{key}:{si}:{ins}").as_bytes()));
            if let Err(fl) = res {
                let ops = replay_ops(env, &u, &pairs, &seq, |d| d);
                report(env, o, &format!("exhaustive transitions {variant} n={n}"), &fl, ops, &queries);
                if env.failures > 200 {
                    return (transitions, nstates);
                }
            }
        }
    }
    (transitions, nstates)
}

pub fn run(ctx: &Ctx) -> Outcome {
    let q = ctx.quick();
    let mut levels: Vec<Level> = Vec::new();
    let mut closure: Vec<(&'static str, usize)> = Vec::new();
    let variants = ["dense", "spread", "top", "bottom", "mixed"];
    if ctx.miri() {
        levels.push(Level { variant: "dense", n: 3, len: 2 });
        closure.push(("mixed", 4));
    } else {
        for v in variants {
            closure.push((v, 10));
            if q {
                levels.push(Level { variant: v, n: 4, len: 5 });
                levels.push(Level { variant: v, n: 5, len: 4 });
            } else {
                levels.push(Level { variant: v, n: 6, len: 5 });
                levels.push(Level { variant: v, n: 4, len: 6 });
            }
        }
        if q {
            levels.push(Level { variant: "dense", n: 10, len: 3 });
            levels.push(Level { variant: "mixed", n: 10, len: 3 });
            levels.push(Level { variant: "dense", n: 6, len: 4 });
            levels.push(Level { variant: "mixed", n: 6, len: 4 });
            levels.push(Level { variant: "dense", n: 3, len: 7 });
            levels.push(Level { variant: "mixed", n: 4, len: 6 });
        } else {
            levels.push(Level { variant: "dense", n: 10, len: 4 });
            levels.push(Level { variant: "mixed", n: 10, len: 4 });
            levels.push(Level { variant: "dense", n: 4, len: 7 });
            levels.push(Level { variant: "mixed", n: 4, len: 7 });
            levels.push(Level { variant: "top", n: 3, len: 7 });
            levels.push(Level { variant: "bottom", n: 3, len: 7 });
        }
    }
    let workers = ctx.workers;
    let mut out = fw::par(ctx, workers, |w, mut rng| {
        let mut o = Outcome::new();
        let rt = runtime();
        let t_new = std::time::Instant::now();
        let mut env = Env::new(&rt);
        if w == 0 {
            // measured costs of the hooks (informative only)
            o.note("cost.ClusterProbe_new_us", json!(t_new.elapsed().as_micros() as u64));
            let t = std::time::Instant::now();
            for _ in 0..20 {
                let (rt, probe, pd, kd) = (env.rt, &mut env.probe, &env.pd, &env.kd);
                rt.block_on(probe.refresh(pd, kd));
            }
            o.note("cost.refresh_us", json!(t.elapsed().as_micros() as u64 / 20));
            env.view = NodeView::of(&env.probe);
            let pl = world::payload_of(model::enc_tablet(0, 10, &env.reps(0)));
            env.fresh_table();
            let t = std::time::Instant::now();
            for _ in 0..1000 {
                let _ = env.add(&pl);
            }
            o.note("cost.add_tablet_from_payload_ns", json!(t.elapsed().as_nanos() as u64 / 1000));
        }
        for (v, n) in &closure {
            let t0 = std::time::Instant::now();
            let (tr, st) = run_closure(&mut env, &mut o, v, *n, w, workers, &mut rng);
            o.note_add(&format!("exhaustive.transitions[{v},n={n}]"), tr);
            o.note_add(&format!("exhaustive.states[{v},n={n}]"), st);
            o.note_add("exhaustive.transitions_total", tr);
            if w == 0 {
                o.note(&format!("exhaustive.secs.transitions[{v},n={n}]"), json!(t0.elapsed().as_secs_f64()));
            }
        }
        for lvl in &levels {
            let t0 = std::time::Instant::now();
            let (h, s) = run_level(&mut env, &mut o, lvl, w, workers);
            o.note_add(&format!("exhaustive.histories[{},n={},len={}]", lvl.variant, lvl.n, lvl.len), h);
            o.note_add("exhaustive.histories_total", h);
            o.note_add("exhaustive.history_steps_compared", s);
            if w == 0 {
                o.note(&format!("exhaustive.secs.histories[{},n={},len={}]", lvl.variant, lvl.n, lvl.len), json!(t0.elapsed().as_secs_f64()));
            }
        }
        env.cls.flush(&mut o);
        o.class_n("lookup:answered", env.cnt.answered);
        o.class_n("lookup:nothing-after-discard", env.cnt.nothing_after_discard);
        o.class_n("lookup:dc-restriction-nonempty", env.cnt.dc_nonempty);
        o.note_add("lookups", env.cnt.lookups);
        o
    });
    out.exhaustive = Some(true);
    out
}
