//! Fixed maintenance histories (each is also reachable by the random part; they are
//! listed so that the maintenance classes are always exercised, deterministically).
use super::world::{KsSpec, Op, PeerSpec};
use super::{base_peers, ks, peer, report, run_history, runtime};
use crate::fw::{self, Ctx, Outcome};

fn add(table: &str, first: i64, last: i64, reps: &[(&PeerSpec, i32)]) -> Op {
    Op::Add { ks: "kx".into(), table: table.into(), first, last, replicas: reps.iter().map(|(p, s)| (p.host, *s)).collect() }
}
fn refresh(peers: &[PeerSpec], kss: &[KsSpec]) -> Op {
    Op::Refresh { peers: peers.to_vec(), keyspaces: kss.to_vec(), partial: false }
}

#[derive(Clone)]
pub struct Scenario {
    pub name: &'static str,
    pub class: &'static str,
    pub peers: Vec<PeerSpec>,
    pub keyspaces: Vec<KsSpec>,
    pub ops: Vec<Op>,
}

pub fn all() -> Vec<Scenario> {
    let p = base_peers();
    let kss = vec![ks("kx", true, &["t"]), ks("kv", false, &["v"])];
    let unknown = peer(40, Some("dc2"), Some("r9"));
    let mut out = Vec::new();
    let three = |p: &Vec<PeerSpec>| {
        vec![
            add("t", -100, -1, &[(&p[0], 1), (&p[3], 2)]),
            add("t", -1, 100, &[(&p[1], 3), (&p[4], 4), (&p[5], 5)]),
            add("t", 100, i64::MAX, &[(&p[2], 6)]),
        ]
    };
    {
        // a replica host leaves the cluster: its tablets are discarded, the others stay
        let mut ops = three(&p);
        let without1: Vec<PeerSpec> = p.iter().filter(|x| x.host != p[1].host).cloned().collect();
        ops.push(refresh(&without1, &kss));
        ops.push(add("t", 50, 60, &[(&p[0], 7)]));
        ops.push(refresh(&p, &kss));
        out.push(Scenario { name: "node-removed", class: "maint:node-removed-discards", peers: p.clone(), keyspaces: kss.clone(), ops });
    }
    {
        // rack change: the Node object is re-created; answers must carry the new object
        let mut ops = three(&p);
        let mut p2 = p.clone();
        p2[0].rack = Some("r7".into());
        ops.push(refresh(&p2, &kss));
        ops.push(add("t", -50, 10, &[(&p[0], 9)]));
        out.push(Scenario { name: "rack-changed", class: "maint:node-recreated", peers: p.clone(), keyspaces: kss.clone(), ops });
    }
    {
        // address change
        let mut ops = three(&p);
        let mut p2 = p.clone();
        p2[4].addr = "127.0.9.9:19042".parse().unwrap();
        ops.push(refresh(&p2, &kss));
        out.push(Scenario { name: "address-changed", class: "maint:node-recreated", peers: p.clone(), keyspaces: kss.clone(), ops });
    }
    {
        // datacenter change: the restriction to a datacenter follows the node's new datacenter
        let mut ops = three(&p);
        let mut p2 = p.clone();
        p2[0].dc = Some("dc2".into());
        ops.push(refresh(&p2, &kss));
        out.push(Scenario { name: "datacenter-changed", class: "maint:node-recreated", peers: p.clone(), keyspaces: kss.clone(), ops });
    }
    {
        // unknown replica appears at the next refresh
        let mut ops = vec![add("t", 0, 10, &[(&p[0], 1), (&unknown, 2)]), add("t", 10, 20, &[(&p[1], 1)])];
        let mut p2 = p.clone();
        p2.push(unknown.clone());
        ops.push(refresh(&p2, &kss));
        out.push(Scenario { name: "unknown-resolved", class: "maint:unknown-resolved", peers: p.clone(), keyspaces: kss.clone(), ops });
    }
    {
        // unknown replica still unknown at the next refresh
        let ops = vec![add("t", 0, 10, &[(&p[0], 1), (&unknown, 2)]), add("t", 10, 20, &[(&p[1], 1)]), refresh(&p, &kss)];
        out.push(Scenario { name: "unknown-unresolved", class: "maint:unknown-unresolved-discards", peers: p.clone(), keyspaces: kss.clone(), ops });
    }
    {
        // unknown replica appears in the very refresh that re-creates another replica of the same tablet
        let mut ops = vec![add("t", 0, 10, &[(&p[0], 1), (&unknown, 2)])];
        let mut p2 = p.clone();
        p2[0].rack = Some("r8".into());
        p2.push(unknown.clone());
        ops.push(refresh(&p2, &kss));
        out.push(Scenario { name: "unknown-resolved-while-coreplica-recreated", class: "maint:unknown-resolved", peers: p.clone(), keyspaces: kss.clone(), ops });
    }
    {
        // keyspace stops being tablet based; table dropped; tablets learnt for a table the schema does not list
        let mut ops = three(&p);
        ops.push(add("ghost", 0, 10, &[(&p[0], 1)]));
        ops.push(Op::Add { ks: "kv".into(), table: "v".into(), first: 0, last: 10, replicas: vec![(p[0].host, 1)] });
        ops.push(refresh(&p, &kss));
        let flipped = vec![ks("kx", false, &["t"]), ks("kv", false, &["v"])];
        ops.push(refresh(&p, &flipped));
        ops.push(refresh(&p, &kss));
        ops.extend(three(&p));
        let dropped = vec![ks("kx", true, &[]), ks("kv", false, &["v"])];
        ops.push(refresh(&p, &dropped));
        ops.push(refresh(&p, &[]));
        out.push(Scenario { name: "schema-changes", class: "maint:keyspace-not-tablet-drops", peers: p.clone(), keyspaces: kss.clone(), ops });
    }
    {
        // a tablet split seen by two in-flight requests: both tablets arrive in one batch, the later one wins
        let ops = vec![
            add("t", 0, 100, &[(&p[0], 1)]),
            Op::Batch { items: vec![("kx".into(), "t".into(), 0, 100, vec![(p[1].host, 2)]), ("kx".into(), "t".into(), 0, 50, vec![(p[2].host, 3)])] },
            Op::Batch { items: vec![("kx".into(), "t".into(), 40, 60, vec![(p[3].host, 4)]), ("kx".into(), "t".into(), 40, 60, vec![(p[4].host, 5)]), ("kx".into(), "t".into(), 55, 70, vec![(p[0].host, 6)])] },
        ];
        out.push(Scenario { name: "batched-overlapping-tablets", class: "batch:several-tablets-in-one-update", peers: p.clone(), keyspaces: kss.clone(), ops });
    }
    // twins: every refresh that leaves the schema as it is becomes a partial topology refresh
    // (the driver re-reads only the peers); the expected outcome is the same
    let twins: Vec<Scenario> = out
        .iter()
        .filter_map(|s| {
            let mut cur = s.keyspaces.clone();
            let mut changed = false;
            let mut t = s.clone();
            for op in t.ops.iter_mut() {
                if let Op::Refresh { keyspaces, partial, .. } = op {
                    if *keyspaces == cur {
                        *partial = true;
                        changed = true;
                    } else {
                        cur = keyspaces.clone();
                    }
                }
            }
            t.name = Box::leak(format!("{}(partial-topology-refresh)", s.name).into_boxed_str());
            changed.then_some(t)
        })
        .collect();
    out.extend(twins);
    out
}

pub fn run(ctx: &Ctx) -> Outcome {
    let mut o = Outcome::new();
    let rt = runtime();
    let filter = ctx.extra.get("scenario").cloned();
    for s in all() {
        if filter.as_deref().is_some_and(|f| f != s.name) {
            continue;
        }
        o.case(fw::hash_str(s.name), true);
        match run_history(&rt, &s.peers, &s.keyspaces, &s.ops, &[]) {
            Ok(_) => {
                o.class(s.class);
                o.class(&format!("scenario:{}", s.name));
                if s.ops.iter().any(|op| matches!(op, Op::Refresh { partial: true, .. })) {
                    o.class("maint:partial-topology-refresh");
                }
            }
            Err((i, f)) => report(&mut o, &format!("scenario {}", s.name), i, &f, &s.peers, &s.keyspaces, &s.ops, &[]),
        }
    }
    o
}
