//! Decoder part: generated values of the `tablets-routing-v1` payload entry against a
//! reference reading of the bytes (`refmodel::tablets::verdict`): accepted exactly when
//! well-formed and admissible, refused otherwise, never a panic; a refused payload
//! leaves the table as it was, an accepted one shows up as the tablet
//! `[first + 1, last]` with the given replicas.
use super::world::{self, Op, World};
use super::{base_peers, ks, report, runtime};
use crate::fw::{self, Ctx, Outcome, Rng};
use crate::refmodel::tablets as model;
use model::Verdict;

fn put_i32(b: &mut Vec<u8>, v: i32) {
    b.extend_from_slice(&v.to_be_bytes());
}
fn field(b: &mut Vec<u8>, content: &[u8]) {
    put_i32(b, content.len() as i32);
    b.extend_from_slice(content);
}

#[derive(Clone, Debug, Default)]
struct Spec {
    first: i64,
    last: i64,
    reps: Vec<(u128, i32)>,
    /// replacement content for outer field i (0, 1)
    long_content: [Option<Vec<u8>>; 2],
    null_outer: Option<usize>,
    /// keep only the first k outer fields
    arity: Option<usize>,
    outer_extra: Vec<u8>,
    count_override: Option<i32>,
    list_extra: Vec<u8>,
    /// (element index, mutation kind, bytes)
    elt: Option<(usize, u8, Vec<u8>)>,
}

fn encode(s: &Spec) -> Vec<u8> {
    let mut list = Vec::new();
    put_i32(&mut list, s.count_override.unwrap_or(s.reps.len() as i32));
    for (i, (h, sh)) in s.reps.iter().enumerate() {
        let mut e = Vec::new();
        let m = s.elt.as_ref().filter(|m| m.0 == i);
        let kind = m.map(|m| m.1).unwrap_or(255);
        let extra: &[u8] = m.map(|m| m.2.as_slice()).unwrap_or(&[]);
        match kind {
            0 => {
                // null element
                put_i32(&mut list, -1);
                continue;
            }
            1 => put_i32(&mut e, -1),                     // null uuid
            2 => field(&mut e, &h.to_be_bytes()[..15]),   // short uuid
            3 => {
                let mut u = h.to_be_bytes().to_vec();
                u.push(7);
                field(&mut e, &u) // long uuid
            }
            _ => field(&mut e, &h.to_be_bytes()),
        }
        match kind {
            4 => put_i32(&mut e, -1),                                  // null shard
            5 => {}                                                    // no shard field at all
            6 => field(&mut e, &(*sh as i16).to_be_bytes()),           // smallint
            7 => field(&mut e, &(*sh as i64).to_be_bytes()),           // bigint
            8 => field(&mut e, &[]),                                   // empty int
            _ => field(&mut e, &sh.to_be_bytes()),
        }
        if kind == 9 {
            e.extend_from_slice(extra); // a third tuple field / garbage
        }
        field(&mut list, &e);
    }
    list.extend_from_slice(&s.list_extra);
    let mut b = Vec::new();
    let longs = [s.first, s.last];
    let arity = s.arity.unwrap_or(3);
    for i in 0..2 {
        if i >= arity {
            break;
        }
        if s.null_outer == Some(i) {
            put_i32(&mut b, -1);
        } else if let Some(c) = &s.long_content[i] {
            field(&mut b, c);
        } else {
            field(&mut b, &longs[i].to_be_bytes());
        }
    }
    if arity >= 3 {
        if s.null_outer == Some(2) {
            put_i32(&mut b, -1);
        } else {
            field(&mut b, &list);
        }
    }
    b.extend_from_slice(&s.outer_extra);
    b
}

fn base_spec(rng: &mut Rng, hosts: &[u128]) -> Spec {
    let (a, b) = match rng.below(6) {
        0 => (rng.i64_boundary(), rng.i64_boundary()),
        1 => {
            let a = rng.i64_boundary();
            (a, a.saturating_add(rng.range(-1, 2)))
        }
        _ => {
            let (x, y) = (rng.u64() as i64, rng.u64() as i64);
            (x.min(y), x.max(y))
        }
    };
    let n = rng.below(5) as usize;
    let reps = (0..n)
        .map(|_| {
            let h = if rng.chance(1, 8) { rng.u64() as u128 | ((rng.u64() as u128) << 64) } else { *rng.pick(hosts) };
            let s = match rng.below(12) {
                0 => -1,
                1 => i32::MIN,
                2 => i32::MAX,
                _ => rng.range(0, 200) as i32,
            };
            (h, s)
        })
        .collect();
    Spec { first: a, last: b, reps, ..Default::default() }
}

/// One generated value and the name of the generator class.
fn rbytes(rng: &mut Rng, lo: usize, hi: usize) -> Vec<u8> {
    let n = rng.usize(lo, hi);
    rng.bytes(n)
}

fn generate(rng: &mut Rng, hosts: &[u128]) -> (Option<Vec<u8>>, &'static str) {
    let mut s = base_spec(rng, hosts);
    let nreps = s.reps.len();
    match rng.below(20) {
        0..=4 => (Some(encode(&s)), "gen:well-formed"),
        5 => {
            s.first = i64::MAX;
            (Some(encode(&s)), "gen:first=i64::MAX")
        }
        6 => {
            let v = encode(&s);
            let cut = rng.below(v.len() as u64) as usize;
            (Some(v[..cut].to_vec()), "gen:truncated")
        }
        7 => {
            let i = rng.below(2) as usize;
            let full = [s.first, s.last][i].to_be_bytes();
            let c: Vec<u8> = match rng.below(5) {
                0 => full[4..].to_vec(),
                1 => full[..7].to_vec(),
                2 => {
                    let mut v = full.to_vec();
                    v.push(0);
                    v
                }
                3 => Vec::new(),
                _ => b"abc".to_vec(),
            };
            s.long_content[i] = Some(c);
            (Some(encode(&s)), "gen:bound-of-wrong-width")
        }
        8 => {
            s.null_outer = Some(rng.below(3) as usize);
            (Some(encode(&s)), "gen:null-field")
        }
        9 => {
            s.arity = Some(rng.below(3) as usize);
            (Some(encode(&s)), "gen:too-few-fields")
        }
        10 => {
            s.outer_extra = if rng.bool() { vec![0, 0, 0, 4, 0, 0, 0, 1] } else { rbytes(rng, 1, 6) };
            (Some(encode(&s)), "gen:extra-outer-bytes")
        }
        11 => {
            s.count_override = Some(match rng.below(5) {
                0 => nreps as i32 + 1,
                1 => nreps as i32 - 1,
                2 => -1,
                3 => i32::MAX,
                _ => i32::MIN,
            });
            (Some(encode(&s)), "gen:element-count-off")
        }
        12 => {
            s.list_extra = rbytes(rng, 1, 9);
            (Some(encode(&s)), "gen:extra-list-bytes")
        }
        13..=15 if nreps > 0 => {
            let kind = rng.below(10) as u8;
            let extra = if rng.bool() { vec![0, 0, 0, 1, 9] } else { rbytes(rng, 1, 5) };
            s.elt = Some((rng.below(nreps as u64) as usize, kind, extra));
            (Some(encode(&s)), "gen:malformed-replica")
        }
        16 => (Some(rbytes(rng, 0, 40)), "gen:random-bytes"),
        17 => {
            // a valid value with one byte changed
            let mut v = encode(&s);
            let i = rng.below(v.len() as u64) as usize;
            v[i] ^= 1 << rng.below(8);
            (Some(v), "gen:one-bit-flipped")
        }
        18 => (None, "gen:key-absent"),
        _ => (Some(Vec::new()), "gen:empty-value"),
    }
}

pub fn run(ctx: &Ctx) -> Outcome {
    let workers = ctx.workers;
    let total = if ctx.miri() { 40 } else { ctx.vol(400_000, 12_000_000) };
    let per_world = 120usize;
    fw::par(ctx, workers, |w, mut rng| {
        let mut o = Outcome::new();
        let rt = runtime();
        let peers = base_peers();
        let kss = vec![ks("kx", true, &["d"])];
        let hosts: Vec<u128> = peers.iter().map(|p| p.host).collect();
        let mine = total / workers as u64 + u64::from((w as u64) < total % workers as u64);
        let mut done = 0u64;
        let mut budget = 250_000u64;
        // every truncation point of one well-formed value, once
        let mut forced: Vec<Vec<u8>> = Vec::new();
        if w == 0 {
            let s = Spec { first: -5, last: 99, reps: vec![(hosts[0], 3), (hosts[3], 0)], ..Default::default() };
            let v = encode(&s);
            for cut in 0..=v.len() {
                forced.push(v[..cut].to_vec());
            }
            // self-check of the reference reading on the untouched value
            if model::verdict(&v) != (Verdict::Accept { first: -4, last: 99, replicas: vec![(hosts[0], 3), (hosts[3], 0)] }) {
                o.inconclusive("harness: reference reading of a well-formed payload is wrong");
            }
            if v != model::enc_tablet(-5, 99, &[(hosts[0], 3), (hosts[3], 0)]) {
                o.inconclusive("harness: the two payload encoders disagree");
            }
        }
        'outer: while done < mine || !forced.is_empty() {
            let mut world = match World::new(&rt, &peers, &kss) {
                Ok(w) => w,
                Err(f) => {
                    report(&mut o, "decoder", 0, &f, &peers, &kss, &[], &[]);
                    break;
                }
            };
            let mut ops: Vec<Op> = Vec::new();
            for _ in 0..per_world {
                if done >= mine && forced.is_empty() {
                    break 'outer;
                }
                let (value, class) = match forced.pop() {
                    Some(v) => (Some(v), "gen:every-truncation-point"),
                    None => generate(&mut rng, &hosts),
                };
                done += 1;
                o.class(class);
                let mut extra: Vec<i64> = Vec::new();
                let mut nontrivial = true;
                if let Some(v) = &value {
                    match model::verdict(v) {
                        Verdict::Accept { first, last, .. } => {
                            o.class("payload:accepted");
                            extra.extend([first, first.saturating_sub(1), last, last.saturating_add(1)]);
                        }
                        Verdict::Either { first, last, .. } => {
                            o.class("payload:unspecified-trailing-content");
                            extra.extend([first, first.saturating_sub(1), last, last.saturating_add(1)]);
                        }
                        Verdict::Refuse("last <= first") => o.class("payload:refused-range"),
                        Verdict::Refuse("negative shard") => o.class("payload:refused-negative-shard"),
                        Verdict::Refuse(_) => o.class("payload:refused-malformed"),
                    }
                } else {
                    nontrivial = false;
                }
                let op = Op::Raw { ks: "kx".into(), table: "d".into(), value };
                if budget > 0 {
                    budget -= 1;
                    o.case(fw::hash64(format!("D:{op:?}").as_bytes()), nontrivial);
                } else {
                    o.evals(1);
                }
                ops.push(op);
                let op = ops.last().unwrap();
                let res = world.exec(op).and_then(|what| {
                    match what {
                        "either-accepted" => o.class("payload:unspecified-accepted"),
                        "either-refused" => o.class("payload:unspecified-refused"),
                        _ => {}
                    }
                    let q = world::queries_around(&world.model, None, &extra, 40, Some(&mut rng));
                    world.check(&q)
                });
                if let Err(f) = res {
                    report(&mut o, "decoder", ops.len() - 1, &f, &peers, &kss, &ops, &extra);
                    continue 'outer;
                }
            }
        }
        o.note_add("decoder.payloads", done);
        o
    })
}
