//! C15 — the tablet map of a table stays a set of disjoint ranges with latest-wins lookup.
//!
//! Parts (all run against a real `ClusterState` through `verif_hooks::ClusterProbe`):
//!  * `exhaustive`: every history of inserts over small token universes, and every
//!    (reachable state, insert) transition over a 10-token universe;
//!  * `random`: long random histories over the full i64 range with metadata refreshes
//!    (topology / schema maintenance) interleaved;
//!  * `decoder`: generated payload values against a reference reading of the bytes;
//!  * `scenarios`: a few fixed maintenance histories.
//! After every step: ranges sorted and disjoint, known tablets == model, every lookup ==
//! model, per-DC list == restriction of the full list.
use crate::fw::{self, Ctx, Outcome};
use serde_json::json;

mod decoder;
mod exhaustive;
mod random;
mod scenarios;
pub mod world;

use world::{Fail, KsSpec, Op, PeerSpec, World};

pub fn runtime() -> tokio::runtime::Runtime {
    tokio::runtime::Builder::new_current_thread().enable_all().max_blocking_threads(2).build().expect("tokio runtime")
}

pub fn peer(i: u64, dc: Option<&str>, rack: Option<&str>) -> PeerSpec {
    PeerSpec {
        host: 0x5ca1_ab1e_0000_0000_0000_0000_0000_0000u128 + i as u128,
        addr: format!("127.0.{}.{}:9042", (i / 200) + 1, (i % 200) + 1).parse().unwrap(),
        dc: dc.map(|s| s.to_owned()),
        rack: rack.map(|s| s.to_owned()),
    }
}

/// Six hosts: three in dc1, two in dc2, one without a datacenter.
pub fn base_peers() -> Vec<PeerSpec> {
    vec![
        peer(0, Some("dc1"), Some("r1")),
        peer(1, Some("dc1"), Some("r2")),
        peer(2, Some("dc1"), Some("r3")),
        peer(3, Some("dc2"), Some("r1")),
        peer(4, Some("dc2"), Some("r2")),
        peer(5, None, None),
    ]
}

pub fn ks(name: &str, tablet_based: bool, tables: &[&str]) -> KsSpec {
    KsSpec { name: name.to_owned(), tablet_based, tables: tables.iter().map(|s| s.to_string()).collect() }
}

/// Runs a list of operations on a fresh world, comparing after every step.
/// Returns the index of the failing step and the failure.
pub fn run_history(rt: &tokio::runtime::Runtime, peers: &[PeerSpec], keyspaces: &[KsSpec], ops: &[Op], extra_queries: &[i64]) -> Result<world::Counters, (usize, Fail)> {
    let mut w = World::new(rt, peers, keyspaces).map_err(|f| (0, f))?;
    w.check(&world::queries_around(&w.model, None, extra_queries, 400, None)).map_err(|f| (0, f))?;
    for (i, op) in ops.iter().enumerate() {
        w.exec(op).map_err(|f| (i, f))?;
        let q = world::queries_around(&w.model, Some(op), extra_queries, 400, None);
        w.check(&q).map_err(|f| (i, f))?;
    }
    Ok(w.cnt)
}

pub fn report(o: &mut Outcome, part: &str, step: usize, f: &Fail, peers: &[PeerSpec], keyspaces: &[KsSpec], ops: &[Op], extra_queries: &[i64]) {
    let upto = (step + 1).min(ops.len());
    o.violation(
        f.sig.clone(),
        format!("[{part}] step {step} of a history of {} operations: {}", ops.len(), f.msg),
        world::history_json(peers, keyspaces, &ops[..upto], extra_queries),
    );
}

fn replay(path: &str) -> Outcome {
    let mut o = Outcome::new();
    let v: serde_json::Value = serde_json::from_str(&std::fs::read_to_string(path).expect("replay file")).expect("json");
    let r = &v["replay"];
    if r["kind"].as_str() != Some("history") {
        o.inconclusive("unrecognised replay file");
        return o;
    }
    let peers = world::peers_from_json(&r["peers"]);
    let keyspaces = world::kss_from_json(&r["keyspaces"]);
    let ops: Vec<Op> = r["ops"].as_array().map(|a| a.iter().filter_map(Op::from_json).collect()).unwrap_or_default();
    let queries: Vec<i64> = r["queries"].as_array().map(|a| a.iter().filter_map(|x| x.as_i64()).collect()).unwrap_or_default();
    let rt = runtime();
    o.case(fw::hash_str(&r.to_string()), true);
    if let Err((i, f)) = run_history(&rt, &peers, &keyspaces, &ops, &queries) {
        report(&mut o, "replay", i, &f, &peers, &keyspaces, &ops, &queries);
    }
    o
}

pub fn run(ctx: &Ctx) -> Outcome {
    if let Some(p) = &ctx.replay {
        return replay(p);
    }
    let only = ctx.extra.get("only").cloned().or_else(|| ctx.part.clone());
    let want = |name: &str| only.as_deref().is_none_or(|o| o == name);
    let mut out = Outcome::new();
    if want("scenarios") {
        out.merge(scenarios::run(ctx));
    }
    if want("exhaustive") {
        out.merge(exhaustive::run(ctx));
    }
    if want("random") {
        out.merge(random::run(ctx));
    }
    if want("decoder") {
        out.merge(decoder::run(ctx));
    }
    if only.is_none() {
        for c in REQUIRED {
            out.require_class(c);
        }
    }
    out.sample(json!({"history": [
        {"add": "(-1, 4] -> [0,4] A"}, {"add": "(3, 9] -> [4,9] B"},
        {"oracle": "live = {[4,9] B}; token 2 -> nothing (A was overlapped), token 4 -> B, token 10 -> nothing"}]}));
    out.sample(json!({"history": [
        {"add": "(i64::MIN, -1] A"}, {"add": "(-1, i64::MAX] B"},
        {"oracle": "live = {[MIN+1,-1] A, [0,MAX] B}; Token::new(i64::MIN) is normalised to MAX -> B"}]}));
    out.sample(json!({"history": [
        {"add": "(10, 20] replicas [X(dc1), U(unknown host)]"}, {"lookup 15": "[X] only"},
        {"refresh": "U still unknown"}, {"oracle": "tablet discarded, token 15 -> nothing"}]}));
    out.sample(json!({"payload": {"first": i64::MAX, "last": i64::MAX, "oracle": "refused (last <= first), table unchanged"}}));
    out
}

pub const REQUIRED: &[&str] = &[
    "rel:before", "rel:meets", "rel:overlaps", "rel:starts", "rel:during", "rel:finishes", "rel:equal",
    "rel:after", "rel:met-by", "rel:overlapped-by", "rel:started-by", "rel:contains", "rel:finished-by",
    "rel:shares-only-its-last-token", "rel:shares-only-its-first-token",
    "insert:discards-0", "insert:discards-1", "insert:discards-2", "insert:discards-3+",
    "range:ends-at-i64::MAX", "range:starts-at-i64::MIN+1", "range:single-token",
    "lookup:nothing-after-discard", "lookup:answered", "lookup:dc-restriction-nonempty",
    "maint:node-removed-discards", "maint:node-recreated", "maint:unknown-resolved", "maint:unknown-unresolved-discards",
    "maint:keyspace-not-tablet-drops", "maint:table-dropped", "maint:noop-refresh", "maint:partial-topology-refresh", "batch:several-tablets-in-one-update",
    "payload:refused-range", "payload:refused-negative-shard", "payload:refused-malformed", "payload:accepted",
];
