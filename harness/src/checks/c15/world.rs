//! C15 — the driver (a real `ClusterState` behind `ClusterProbe`) and the reference
//! model driven in lockstep by a list of operations; the comparison after each step.
use crate::fw;
use crate::refmodel::tablets as model;
use bytes::Bytes;
use model::{Host, MKeyspace, MNode, MTablet, Model, Verdict};
use scylla::cluster::Node;
use scylla::cluster::metadata::{Peer, Strategy};
use scylla::frame::response::result::TableSpec;
use scylla::policies::host_filter::HostFilter;
use scylla::routing::Token;
use scylla::verif_hooks::{ClusterProbe, KeyspaceDesc, PeerDesc};
use serde_json::{Value, json};
use std::collections::{BTreeMap, BTreeSet, HashMap};
use std::net::SocketAddr;
use std::sync::Arc;
use uuid::Uuid;

pub struct RejectAll;
impl HostFilter for RejectAll {
    fn accept(&self, _peer: &Peer) -> bool {
        false
    }
}

#[derive(Clone, Debug, PartialEq, Eq)]
pub struct PeerSpec {
    pub host: Host,
    pub addr: SocketAddr,
    pub dc: Option<String>,
    pub rack: Option<String>,
}

#[derive(Clone, Debug, PartialEq, Eq)]
pub struct KsSpec {
    pub name: String,
    pub tablet_based: bool,
    pub tables: Vec<String>,
}

#[derive(Clone, Debug)]
pub enum Op {
    /// a well-formed payload: (exclusive lower bound, inclusive upper bound, replicas)
    Add { ks: String, table: String, first: i64, last: i64, replicas: Vec<(Host, i32)> },
    /// arbitrary payload value bytes (`None`: the tablet key is absent from the payload)
    Raw { ks: String, table: String, value: Option<Vec<u8>> },
    /// several well-formed payloads handed over in ONE batch, in this order (as when several responses carried
    /// tablets between two wake-ups of the cluster worker): (ks, table, first, last, replicas)
    Batch { items: Vec<(String, String, i64, i64, Vec<(Host, i32)>)> },
    /// `partial`: only the peer list is re-read (`ClusterState::new_with_updated_topology`);
    /// `keyspaces` then repeats the schema in force and is not handed to the driver
    Refresh { peers: Vec<PeerSpec>, keyspaces: Vec<KsSpec>, partial: bool },
}

#[derive(Clone, Debug)]
pub struct Fail {
    pub sig: String,
    pub msg: String,
}

fn fail<T>(sig: &str, msg: String) -> Result<T, Fail> {
    Err(Fail { sig: sig.to_owned(), msg })
}

pub fn hosthex(h: Host) -> String {
    format!("{h:032x}")
}
fn unhosthex(s: &str) -> Host {
    u128::from_str_radix(s, 16).unwrap_or(0)
}

pub fn peer_desc(p: &PeerSpec, idx: usize) -> PeerDesc {
    PeerDesc {
        host_id: Uuid::from_u128(p.host),
        address: p.addr,
        datacenter: p.dc.clone(),
        rack: p.rack.clone(),
        // one distinct ring token per peer (the ring is irrelevant for tablet tables)
        tokens: vec![(p.host as i64).wrapping_mul(0x9e37_79b9_7f4a_7c15u64 as i64).wrapping_add(idx as i64)],
    }
}

pub fn ks_desc(k: &KsSpec) -> KeyspaceDesc {
    KeyspaceDesc {
        name: k.name.clone(),
        strategy: Strategy::SimpleStrategy { replication_factor: 1 },
        tablet_based: k.tablet_based,
        tables: k.tables.clone(),
    }
}

fn model_nodes(peers: &[PeerSpec]) -> BTreeMap<Host, MNode> {
    peers.iter().map(|p| (p.host, MNode { dc: p.dc.clone(), rack: p.rack.clone(), addr: p.addr })).collect()
}
fn model_keyspaces(kss: &[KsSpec]) -> BTreeMap<String, MKeyspace> {
    kss.iter()
        .map(|k| (k.name.clone(), MKeyspace { tablet_based: k.tablet_based, tables: k.tables.iter().cloned().collect() }))
        .collect()
}

pub fn peers_json(peers: &[PeerSpec]) -> Value {
    Value::Array(peers.iter().map(|p| json!({"host": hosthex(p.host), "addr": p.addr.to_string(), "dc": p.dc, "rack": p.rack})).collect())
}
pub fn kss_json(kss: &[KsSpec]) -> Value {
    Value::Array(kss.iter().map(|k| json!({"name": k.name, "tablet_based": k.tablet_based, "tables": k.tables})).collect())
}
pub fn peers_from_json(v: &Value) -> Vec<PeerSpec> {
    v.as_array()
        .map(|a| {
            a.iter()
                .map(|p| PeerSpec {
                    host: unhosthex(p["host"].as_str().unwrap_or("0")),
                    addr: p["addr"].as_str().unwrap_or("127.0.0.1:9042").parse().unwrap(),
                    dc: p["dc"].as_str().map(|s| s.to_owned()),
                    rack: p["rack"].as_str().map(|s| s.to_owned()),
                })
                .collect()
        })
        .unwrap_or_default()
}
pub fn kss_from_json(v: &Value) -> Vec<KsSpec> {
    v.as_array()
        .map(|a| {
            a.iter()
                .map(|k| KsSpec {
                    name: k["name"].as_str().unwrap_or("").to_owned(),
                    tablet_based: k["tablet_based"].as_bool().unwrap_or(false),
                    tables: k["tables"].as_array().map(|t| t.iter().filter_map(|x| x.as_str().map(|s| s.to_owned())).collect()).unwrap_or_default(),
                })
                .collect()
        })
        .unwrap_or_default()
}

impl Op {
    pub fn to_json(&self) -> Value {
        match self {
            Op::Add { ks, table, first, last, replicas } => json!({
                "op": "add", "ks": ks, "table": table, "first_exclusive": first, "last": last,
                "replicas": replicas.iter().map(|(h, s)| json!([hosthex(*h), s])).collect::<Vec<_>>(),
            }),
            Op::Raw { ks, table, value } => json!({
                "op": "raw", "ks": ks, "table": table, "value_hex": value.as_ref().map(|v| fw::hex(v)),
            }),
            Op::Batch { items } => json!({"op": "batch", "items": items.iter().map(|(ks, table, first, last, replicas)| json!({
                "ks": ks, "table": table, "first_exclusive": first, "last": last,
                "replicas": replicas.iter().map(|(h, s)| json!([hosthex(*h), s])).collect::<Vec<_>>()})).collect::<Vec<_>>()}),
            Op::Refresh { peers, keyspaces, partial } => json!({"op": "refresh", "partial": partial, "peers": peers_json(peers), "keyspaces": kss_json(keyspaces)}),
        }
    }
    pub fn from_json(v: &Value) -> Option<Op> {
        let s = |k: &str| v[k].as_str().unwrap_or("").to_owned();
        Some(match v["op"].as_str()? {
            "add" => Op::Add {
                ks: s("ks"),
                table: s("table"),
                first: v["first_exclusive"].as_i64()?,
                last: v["last"].as_i64()?,
                replicas: v["replicas"]
                    .as_array()?
                    .iter()
                    .map(|r| (unhosthex(r[0].as_str().unwrap_or("0")), r[1].as_i64().unwrap_or(0) as i32))
                    .collect(),
            },
            "batch" => Op::Batch {
                items: v["items"]
                    .as_array()?
                    .iter()
                    .map(|i| {
                        (
                            i["ks"].as_str().unwrap_or("").to_owned(),
                            i["table"].as_str().unwrap_or("").to_owned(),
                            i["first_exclusive"].as_i64().unwrap_or(0),
                            i["last"].as_i64().unwrap_or(0),
                            i["replicas"].as_array().map(|a| a.iter().map(|r| (unhosthex(r[0].as_str().unwrap_or("0")), r[1].as_i64().unwrap_or(0) as i32)).collect()).unwrap_or_default(),
                        )
                    })
                    .collect(),
            },
            "raw" => Op::Raw { ks: s("ks"), table: s("table"), value: v["value_hex"].as_str().map(fw::unhex) },
            "refresh" => Op::Refresh { peers: peers_from_json(&v["peers"]), keyspaces: kss_from_json(&v["keyspaces"]), partial: v["partial"].as_bool().unwrap_or(false) },
            _ => return None,
        })
    }
}

pub fn payload_of(value: Vec<u8>) -> HashMap<String, Bytes> {
    let mut m = HashMap::with_capacity(1);
    m.insert(model::PAYLOAD_KEY.to_owned(), Bytes::from(value));
    m
}

/// What the comparison needs to know about the topology: the current `Node` objects
/// by host id (to recognise stale objects) and the model's node attributes.
pub struct NodeView {
    pub ptrs: HashMap<Uuid, *const Node>,
}

impl NodeView {
    pub fn of(probe: &ClusterProbe) -> Self {
        NodeView { ptrs: probe.state().get_nodes_info().iter().map(|n| (n.host_id, Arc::as_ptr(n))).collect() }
    }
}

pub struct Counters {
    pub lookups: u64,
    pub nothing_after_discard: u64,
    pub answered: u64,
    pub dc_nonempty: u64,
    pub unresolved_answer: u64,
}
impl Counters {
    pub fn new() -> Self {
        Counters { lookups: 0, nothing_after_discard: 0, answered: 0, dc_nonempty: 0, unresolved_answer: 0 }
    }
}

fn fmt_reps(r: &[(Host, u32)]) -> String {
    let v: Vec<String> = r.iter().map(|(h, s)| format!("{:x}/{}", h, s)).collect();
    format!("[{}]", v.join(","))
}

/// Compares one table of the driver with the expected live set (`None`: the table must
/// not be known as a tablet table).
#[allow(clippy::too_many_arguments)]
pub fn check_table(
    probe: &ClusterProbe,
    strategy: &Strategy,
    view: &NodeView,
    nodes: &BTreeMap<Host, MNode>,
    ks: &str,
    table: &str,
    live: Option<&[MTablet]>,
    discarded: &[MTablet],
    queries: &[i64],
    dcs: &[String],
    cnt: &mut Counters,
) -> Result<(), Fail> {
    let dump = match fw::catch(|| probe.tablet_ranges(ks, table)) {
        Ok(d) => d,
        Err(p) => return fail("dump:panic", format!("dumping {ks}.{table} panicked: {p}")),
    };
    let (dump, live) = match (dump, live) {
        (None, None) => return Ok(()),
        (Some(d), None) => {
            return fail(
                "maintenance:table-not-dropped",
                format!("{ks}.{table} should not be known as a tablet table (dropped / keyspace not tablet based) but the driver holds {} tablets for it", d.len()),
            );
        }
        (None, Some(l)) => {
            return fail("maintenance:table-entry-missing", format!("{ks}.{table} should be a known tablet table with {} tablets but the driver has no entry", l.len()));
        }
        (Some(d), Some(l)) => (d, l),
    };
    // (1) sorted, pairwise disjoint, non-empty ranges
    for t in &dump {
        if t.first_token > t.last_token {
            return fail("ranges:inverted", format!("{ks}.{table}: stored tablet [{}, {}] is inverted", t.first_token, t.last_token));
        }
    }
    for w in dump.windows(2) {
        if w[0].last_token >= w[1].first_token {
            return fail(
                "ranges:not-sorted-disjoint",
                format!("{ks}.{table}: stored tablets [{}, {}] and [{}, {}] are adjacent in the list but overlap / are out of order", w[0].first_token, w[0].last_token, w[1].first_token, w[1].last_token),
            );
        }
    }
    // (2) the known tablets are exactly the live tablets of the model
    let mut want: Vec<&MTablet> = live.iter().collect();
    want.sort_by_key(|t| t.first);
    let same_ranges = dump.len() == want.len() && dump.iter().zip(&want).all(|(d, m)| d.first_token == m.first && d.last_token == m.last);
    if !same_ranges {
        let d: Vec<(i64, i64)> = dump.iter().map(|t| (t.first_token, t.last_token)).collect();
        let m: Vec<(i64, i64)> = want.iter().map(|t| (t.first, t.last)).collect();
        let extra = d.iter().find(|r| !m.contains(r));
        let missing = m.iter().find(|r| !d.contains(r));
        let sig = match (extra, missing) {
            (Some(_), _) => "tablets:stale-tablet-kept",
            (None, Some(_)) => "tablets:live-tablet-lost",
            _ => "tablets:set-differs",
        };
        return fail(sig, format!("{ks}.{table}: driver knows {d:?}, expected {m:?} (unexpected {extra:?}, missing {missing:?})"));
    }
    for (d, m) in dump.iter().zip(&want) {
        let got: Vec<(Host, u32)> = d.replicas.iter().map(|(u, s)| (u.as_u128(), *s)).collect();
        if got != m.visible {
            return fail(
                "tablets:replicas-differ",
                format!("{ks}.{table}: tablet [{}, {}] holds replicas {}, expected {} (learnt {})", m.first, m.last, fmt_reps(&got), fmt_reps(&m.visible), fmt_reps(&m.full)),
            );
        }
        if d.has_unresolved != m.unresolved {
            return fail(
                "tablets:unresolved-flag",
                format!("{ks}.{table}: tablet [{}, {}] unresolved={} in the driver, expected {}", m.first, m.last, d.has_unresolved, m.unresolved),
            );
        }
    }
    // (3) lookups through the public API
    let spec = TableSpec::borrowed(ks, table);
    let locator = probe.state().replica_locator();
    let mut got: Vec<(Host, u32)> = Vec::with_capacity(8);
    for &q in queries {
        let tok = Token::new(q);
        let t = tok.value();
        let covering = model::lookup_in(live, t);
        let expect: &[(Host, u32)] = covering.map(|c| c.visible.as_slice()).unwrap_or(&[]);
        got.clear();
        let mut stale_node: Option<Uuid> = None;
        let r = fw::catch(|| {
            for (n, s) in locator.replicas_for_token(tok, strategy, None, &spec) {
                got.push((n.host_id.as_u128(), s));
                if view.ptrs.get(&n.host_id).copied() != Some(Arc::as_ptr(n)) {
                    stale_node = Some(n.host_id);
                }
            }
        });
        if let Err(p) = r {
            return fail("lookup:panic", format!("{ks}.{table}: replicas_for_token({t}) panicked: {p}"));
        }
        cnt.lookups += 1;
        if got != expect {
            let sig = match (covering, got.is_empty()) {
                (None, _) => "lookup:stale-or-foreign-answer",
                (Some(_), true) => "lookup:covered-token-unanswered",
                (Some(_), false) => "lookup:wrong-tablet",
            };
            let cov = covering.map(|c| format!("[{}, {}] (seq {})", c.first, c.last, c.seq)).unwrap_or_else(|| "nothing".into());
            return fail(sig, format!("{ks}.{table}: token {t} answered with {}, expected {} from {}", fmt_reps(&got), fmt_reps(expect), cov));
        }
        match covering {
            Some(c) => {
                cnt.answered += 1;
                if c.unresolved {
                    cnt.unresolved_answer += 1;
                }
            }
            None => {
                if discarded.iter().any(|d| d.covers(t)) {
                    cnt.nothing_after_discard += 1;
                }
            }
        }
        // (4) restricted to a datacenter == restriction of the full list
        for dc in dcs {
            let mut gotdc: Vec<(Host, u32)> = Vec::new();
            let r = fw::catch(|| {
                for (n, s) in locator.replicas_for_token(tok, strategy, Some(dc.as_str()), &spec) {
                    gotdc.push((n.host_id.as_u128(), s));
                    if view.ptrs.get(&n.host_id).copied() != Some(Arc::as_ptr(n)) {
                        stale_node = Some(n.host_id);
                    }
                }
            });
            if let Err(p) = r {
                return fail("lookup:panic", format!("{ks}.{table}: replicas_for_token({t}, dc={dc}) panicked: {p}"));
            }
            let wantdc: Vec<(Host, u32)> =
                expect.iter().copied().filter(|(h, _)| nodes.get(h).and_then(|n| n.dc.as_deref()) == Some(dc.as_str())).collect();
            cnt.lookups += 1;
            if !wantdc.is_empty() {
                cnt.dc_nonempty += 1;
            }
            if gotdc != wantdc {
                return fail(
                    "lookup:dc-restriction",
                    format!("{ks}.{table}: token {t} restricted to {dc}: {}, but the full list {} restricted to {dc} is {}", fmt_reps(&gotdc), fmt_reps(expect), fmt_reps(&wantdc)),
                );
            }
        }
        if let Some(h) = stale_node {
            return fail("lookup:stale-node-object", format!("{ks}.{table}: token {t}: replica {h} is not the current Node object of the cluster state"));
        }
    }
    Ok(())
}

/// Driver and model in lockstep.
pub struct World<'r> {
    pub rt: &'r tokio::runtime::Runtime,
    pub probe: ClusterProbe,
    pub model: Model,
    pub strategy: Strategy,
    pub view: NodeView,
    pub dcs: Vec<String>,
    pub tables: BTreeSet<(String, String)>,
    pub peers: Vec<PeerSpec>,
    pub keyspaces: Vec<KsSpec>,
    pub cnt: Counters,
    /// some host changed its datacenter in an earlier refresh of this history
    pub dc_changed: bool,
}

impl<'r> World<'r> {
    pub fn new(rt: &'r tokio::runtime::Runtime, peers: &[PeerSpec], keyspaces: &[KsSpec]) -> Result<Self, Fail> {
        let pd: Vec<PeerDesc> = peers.iter().enumerate().map(|(i, p)| peer_desc(p, i)).collect();
        let kd: Vec<KeyspaceDesc> = keyspaces.iter().map(ks_desc).collect();
        let probe = match fw::catch(|| rt.block_on(ClusterProbe::new(&pd, &kd, Some(Arc::new(RejectAll))))) {
            Ok(p) => p,
            Err(p) => return fail("new:panic", format!("ClusterState::new panicked: {p}")),
        };
        let model = Model::new(model_nodes(peers), &model_keyspaces(keyspaces));
        let view = NodeView::of(&probe);
        let mut w = World {
            rt,
            probe,
            model,
            strategy: Strategy::SimpleStrategy { replication_factor: 1 },
            view,
            dcs: vec!["no-such-dc".to_owned()],
            tables: BTreeSet::new(),
            peers: peers.to_vec(),
            keyspaces: keyspaces.to_vec(),
            cnt: Counters::new(),
            dc_changed: false,
        };
        w.note_topology();
        Ok(w)
    }

    fn note_topology(&mut self) {
        for p in &self.peers {
            if let Some(dc) = &p.dc {
                if !self.dcs.contains(dc) {
                    self.dcs.push(dc.clone());
                }
            }
        }
        for k in &self.keyspaces {
            for t in &k.tables {
                self.tables.insert((k.name.clone(), t.clone()));
            }
        }
    }

    /// Applies one operation to both sides; the verdict on the payload itself is
    /// decided here, the state comparison by `check`.
    pub fn exec(&mut self, op: &Op) -> Result<&'static str, Fail> {
        match op {
            Op::Add { ks, table, first, last, replicas } => {
                self.tables.insert((ks.clone(), table.clone()));
                let payload = payload_of(model::enc_tablet(*first, *last, replicas));
                let got = fw::catch(|| self.probe.add_tablet_from_payload(ks, table, &payload));
                let want = model::admit(*first, *last, replicas);
                match (got, want) {
                    (Err(p), _) => fail("payload:panic", format!("feeding payload ({first}, {last}] {replicas:?} panicked: {p}")),
                    (Ok(Ok(true)), Ok((f, l, r))) => {
                        self.model.learn(ks, table, f, l, r);
                        Ok("accepted")
                    }
                    (Ok(Err(_)), Err(_)) => {
                        self.model.last_discarded.clear();
                        Ok("refused")
                    }
                    (Ok(Ok(true)), Err(why)) => fail("payload:inadmissible-accepted", format!("payload ({first}, {last}] {replicas:?} was accepted although it must be refused ({why:?})")),
                    (Ok(Err(e)), Ok(_)) => fail("payload:admissible-refused", format!("payload ({first}, {last}] {replicas:?} was refused: {e}")),
                    (Ok(Ok(false)), _) => fail("payload:ignored", format!("payload ({first}, {last}] under the tablet key was reported as absent")),
                }
            }
            Op::Batch { items } => {
                let mut batch = Vec::new();
                for (ks, table, first, last, replicas) in items {
                    self.tables.insert((ks.clone(), table.clone()));
                    batch.push((ks.clone(), table.clone(), payload_of(model::enc_tablet(*first, *last, replicas))));
                }
                let got = match fw::catch(|| self.probe.add_tablets_batch(&batch)) {
                    Ok(g) => g,
                    Err(p) => return fail("payload:panic", format!("feeding a batch of {} payloads panicked: {p}", items.len())),
                };
                // the batch is learnt in the order given: the later of two overlapping tablets wins
                self.model.last_discarded.clear();
                for (i, (ks, table, first, last, replicas)) in items.iter().enumerate() {
                    match (got.get(i).copied().unwrap_or(false), model::admit(*first, *last, replicas)) {
                        (true, Ok((f, l, r))) => {
                            self.model.learn(ks, table, f, l, r);
                        }
                        (false, Err(_)) => {}
                        (true, Err(why)) => return fail("payload:inadmissible-accepted", format!("batched payload ({first}, {last}] {replicas:?} was accepted although it must be refused ({why:?})")),
                        (false, Ok(_)) => return fail("payload:admissible-refused", format!("batched payload ({first}, {last}] {replicas:?} was refused")),
                    }
                }
                Ok("batch")
            }
            Op::Raw { ks, table, value } => {
                self.tables.insert((ks.clone(), table.clone()));
                let mut payload: HashMap<String, Bytes> = HashMap::new();
                payload.insert("some-other-extension".to_owned(), Bytes::from_static(b"\x00\x01"));
                if let Some(v) = value {
                    payload.insert(model::PAYLOAD_KEY.to_owned(), Bytes::from(v.clone()));
                }
                let got = fw::catch(|| self.probe.add_tablet_from_payload(ks, table, &payload));
                self.model.last_discarded.clear();
                let hexv = value.as_ref().map(|v| fw::hex(v)).unwrap_or_else(|| "<absent>".into());
                let got = match got {
                    Err(p) => return fail("payload:panic", format!("payload value {hexv} panicked: {p}")),
                    Ok(g) => g,
                };
                let Some(v) = value else {
                    return match got {
                        Ok(false) => Ok("absent"),
                        other => fail("payload:absent-key-not-ignored", format!("payload without the tablet key gave {other:?}")),
                    };
                };
                match (got, model::verdict(v)) {
                    (Ok(false), _) => fail("payload:ignored", format!("payload value {hexv} under the tablet key was reported as absent")),
                    (Ok(true), Verdict::Accept { first, last, replicas }) => {
                        self.model.learn(ks, table, first, last, replicas);
                        Ok("accepted")
                    }
                    (Err(_), Verdict::Refuse(_)) => Ok("refused"),
                    (Ok(true), Verdict::Refuse(why)) => fail("payload:inadmissible-accepted", format!("payload value {hexv} was accepted although it must be refused ({why})")),
                    (Err(e), Verdict::Accept { .. }) => fail("payload:admissible-refused", format!("well-formed payload value {hexv} was refused: {e}")),
                    (Ok(true), Verdict::Either { first, last, replicas, .. }) => {
                        self.model.learn(ks, table, first, last, replicas);
                        Ok("either-accepted")
                    }
                    (Err(_), Verdict::Either { .. }) => Ok("either-refused"),
                }
            }
            Op::Refresh { peers, keyspaces, partial } => {
                // a partial refresh carries the schema over: the model is told the schema in force
                let keyspaces = if *partial { &self.keyspaces.clone() } else { keyspaces };
                let partial = *partial;
                let pd: Vec<PeerDesc> = peers.iter().enumerate().map(|(i, p)| peer_desc(p, i)).collect();
                let kd: Vec<KeyspaceDesc> = keyspaces.iter().map(ks_desc).collect();
                let rt = self.rt;
                let probe = &mut self.probe;
                // context for the signature only: which hosts get a new Node object
                let recreated: Vec<Host> = peers
                    .iter()
                    .filter(|n| self.peers.iter().any(|o| o.host == n.host && (o.dc != n.dc || o.rack != n.rack || o.addr != n.addr)))
                    .map(|n| n.host)
                    .collect();
                if peers.iter().any(|n| self.peers.iter().any(|o| o.host == n.host && o.dc != n.dc)) {
                    self.dc_changed = true;
                }
                let resolves_with_recreated = self.model.tables.values().flatten().any(|t| {
                    t.unresolved && t.full.iter().all(|(h, _)| peers.iter().any(|p| p.host == *h)) && t.visible.iter().any(|(h, _)| recreated.contains(h))
                });
                if let Err(p) = fw::catch(|| rt.block_on(async {
                    if partial {
                        probe.refresh_topology(&pd).await
                    } else {
                        probe.refresh(&pd, &kd).await
                    }
                })) {
                    let sig = if resolves_with_recreated { "refresh:panic@tablet-resolved-while-coreplica-recreated" } else { "refresh:panic" };
                    return fail(sig, format!("metadata refresh panicked: {p}"));
                }
                self.model.refresh(model_nodes(peers), &model_keyspaces(keyspaces));
                self.peers = peers.clone();
                self.keyspaces = keyspaces.clone();
                self.view = NodeView::of(&self.probe);
                self.note_topology();
                Ok("refreshed")
            }
        }
    }

    pub fn check(&mut self, queries: &[i64]) -> Result<(), Fail> {
        if !self.model.tables.values().all(|l| model::live_disjoint(l)) {
            return fail("harness:model-not-disjoint", "the reference model broke its own invariant".into());
        }
        for (ks, table) in &self.tables {
            let live = self.model.tables.get(&(ks.clone(), table.clone())).map(|v| v.as_slice());
            let r = check_table(&self.probe, &self.strategy, &self.view, &self.model.nodes, ks, table, live, &self.model.last_discarded, queries, &self.dcs, &mut self.cnt);
            if let Err(mut f) = r {
                if f.sig == "lookup:dc-restriction" && self.dc_changed {
                    f.sig = "lookup:dc-restriction@replica-changed-datacenter".into();
                }
                return Err(f);
            }
        }
        Ok(())
    }
}

/// Tokens worth asking about after `op`: every bound of every live and just-discarded
/// tablet and of the operation itself, with both neighbours, plus the extremes.
pub fn queries_around(model: &Model, op: Option<&Op>, extra: &[i64], cap: usize, rng: Option<&mut fw::Rng>) -> Vec<i64> {
    let mut pts: Vec<i64> = vec![i64::MIN, i64::MIN + 1, i64::MAX, 0];
    let mut must: Vec<i64> = Vec::new();
    let around = |v: &mut Vec<i64>, x: i64| {
        v.push(x);
        v.push(x.saturating_sub(1));
        v.push(x.saturating_add(1));
    };
    if let Some(Op::Add { first, last, .. }) = op {
        around(&mut must, *first);
        around(&mut must, *last);
        must.push(first.saturating_add(1).saturating_add(1));
        must.push(((*first as i128 + *last as i128) / 2) as i64);
    }
    if let Some(Op::Batch { items }) = op {
        for (_, _, first, last, _) in items {
            around(&mut must, *first);
            around(&mut must, *last);
            must.push(((*first as i128 + *last as i128) / 2) as i64);
        }
    }
    for d in &model.last_discarded {
        around(&mut must, d.first);
        around(&mut must, d.last);
        must.push(((d.first as i128 + d.last as i128) / 2) as i64);
    }
    for live in model.tables.values() {
        for t in live {
            around(&mut pts, t.first);
            around(&mut pts, t.last);
        }
    }
    pts.extend_from_slice(extra);
    pts.sort_unstable();
    pts.dedup();
    if pts.len() > cap {
        if let Some(rng) = rng {
            rng.shuffle(&mut pts);
        }
        pts.truncate(cap);
    }
    pts.extend(must);
    pts.sort_unstable();
    pts.dedup();
    pts
}

pub fn history_json(peers: &[PeerSpec], keyspaces: &[KsSpec], ops: &[Op], extra_queries: &[i64]) -> Value {
    json!({
        "kind": "history",
        "peers": peers_json(peers),
        "keyspaces": kss_json(keyspaces),
        "ops": ops.iter().map(|o| o.to_json()).collect::<Vec<_>>(),
        "queries": extra_queries,
    })
}
