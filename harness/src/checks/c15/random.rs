//! Random part: long histories over the full i64 range on several tables, with real
//! metadata refreshes (node removed / re-added, rack or address changed, unknown replica
//! hosts that later join or never do, keyspace flipped to non-tablet, table / keyspace
//! dropped) interleaved; everything compared after every step.
use super::exhaustive::Classes;
use super::world::{self, KsSpec, Op, PeerSpec, World};
use super::{ks, peer, report, runtime};
use crate::fw::{self, Ctx, Outcome, Rng};
use serde_json::json;

const TABLES: [(&str, &str, u64); 6] = [("ka", "ta1", 40), ("ka", "ta2", 20), ("kb", "tb1", 20), ("kv", "tv1", 8), ("ka", "ghost", 7), ("kz", "zz", 5)];

fn host_pool() -> Vec<PeerSpec> {
    let dcs = [Some("dc1"), Some("dc2"), Some("dc1"), Some("dc3"), Some("dc2"), None, Some("dc1"), Some("dc2"), Some("dc3"), Some("dc1"), None, Some("dc2")];
    (0..12).map(|i| peer(i as u64, dcs[i], if dcs[i].is_some() { Some(["r1", "r2", "r3"][i % 3]) } else { None })).collect()
}

fn initial_kss() -> Vec<KsSpec> {
    vec![ks("ka", true, &["ta1", "ta2"]), ks("kb", true, &["tb1"]), ks("kv", false, &["tv1"])]
}

struct Gen {
    pool: Vec<PeerSpec>,
    present: Vec<bool>,
    kss_full: Vec<KsSpec>,
    kss: Vec<KsSpec>,
    bounds: Vec<i64>,
    /// may change datacenters and add + re-create hosts in one refresh (both run into
    /// defects of the unchanged tree, see the report)
    wild: bool,
    rack_ctr: u32,
}

impl Gen {
    fn weighted_table(&self, rng: &mut Rng) -> (String, String) {
        let total: u64 = TABLES.iter().map(|t| t.2).sum();
        let mut x = rng.below(total);
        for (k, t, w) in TABLES {
            if x < w {
                return (k.to_owned(), t.to_owned());
            }
            x -= w;
        }
        unreachable!()
    }

    fn bound(&mut self, rng: &mut Rng) -> i64 {
        if !self.bounds.is_empty() && rng.chance(1, 2) {
            let b = *rng.pick(&self.bounds);
            return b.saturating_add(rng.range(-2, 2));
        }
        rng.i64_boundary()
    }

    fn remember(&mut self, rng: &mut Rng, b: i64) {
        if self.bounds.len() < 48 {
            self.bounds.push(b);
        } else {
            let i = rng.below(48) as usize;
            self.bounds[i] = b;
        }
    }

    /// (exclusive first, inclusive last) — mostly admissible
    fn range(&mut self, rng: &mut Rng) -> (i64, i64) {
        let (first, last) = match rng.below(100) {
            // narrow range inside one of 64 cells of the ring, sometimes spilling into the next cells
            0..=49 => {
                let cell = rng.range(0, 63);
                let lo = (i64::MIN as i128 + cell as i128 * (1i128 << 58)) as i64;
                let off = match rng.below(3) {
                    0 => rng.range(0, 8),
                    1 => rng.range(0, (1i64 << 58) - 1),
                    _ => (rng.range(0, 15)) << 54,
                };
                let first = lo.saturating_add(off);
                let width = match rng.below(4) {
                    0 => rng.range(1, 4),
                    1 => 1i64 << rng.range(0, 57),
                    2 => rng.range(1, 1i64 << 56),
                    _ => rng.range(1, 3) << 58,
                };
                (first, first.saturating_add(width))
            }
            // two arbitrary tokens
            50..=69 => {
                let (a, b) = (rng.u64() as i64, rng.u64() as i64);
                (a.min(b), a.max(b))
            }
            // around bounds used before (touching / sharing one token / equal)
            70..=89 => {
                let (a, b) = (self.bound(rng), self.bound(rng));
                (a.min(b), a.max(b))
            }
            // the ends of the ring
            90..=94 => (i64::MIN, if rng.bool() { i64::MIN + 1 + rng.range(0, 3) } else { self.bound(rng) }),
            95..=97 => (if rng.bool() { i64::MAX - 1 - rng.range(0, 3) } else { self.bound(rng) }, i64::MAX),
            _ => (i64::MIN, i64::MAX),
        };
        // a few inadmissible ones (must be refused and leave everything as it was)
        match rng.below(40) {
            0 => (last, first),
            1 => (first, first),
            2 => (i64::MAX, rng.i64_boundary()),
            _ => (first, last),
        }
    }

    fn replicas(&self, rng: &mut Rng) -> Vec<(u128, i32)> {
        let n = match rng.below(20) {
            0 => 0,
            1..=5 => 1,
            6..=11 => 2,
            12..=17 => 3,
            _ => 5,
        };
        let present: Vec<usize> = (0..self.pool.len()).filter(|i| self.present[*i]).collect();
        let absent: Vec<usize> = (0..self.pool.len()).filter(|i| !self.present[*i]).collect();
        let with_unknown = rng.chance(1, 6);
        let mut v = Vec::new();
        for _ in 0..n {
            let idx = if with_unknown && !absent.is_empty() && rng.chance(1, 2) { *rng.pick(&absent) } else { *rng.pick(&present) };
            let shard = if rng.chance(1, 60) { -1 - rng.range(0, 5) as i32 } else { rng.range(0, 31) as i32 };
            v.push((self.pool[idx].host, shard));
        }
        if with_unknown && rng.chance(1, 10) {
            // a host id that never joins
            v.push((0xdead_0000_0000_0000_0000_0000_0000_0000u128 + rng.below(3) as u128, 0));
        }
        v
    }

    fn current_peers(&self) -> Vec<PeerSpec> {
        (0..self.pool.len()).filter(|i| self.present[*i]).map(|i| self.pool[i].clone()).collect()
    }

    fn refresh(&mut self, rng: &mut Rng, wanted: &[u128]) -> Op {
        let nmut = match rng.below(10) {
            0..=1 => 0,
            2..=7 => 1,
            _ => 2,
        };
        let (mut added, mut recreated) = (false, false);
        for _ in 0..nmut {
            let present: Vec<usize> = (0..self.pool.len()).filter(|i| self.present[*i]).collect();
            let absent: Vec<usize> = (0..self.pool.len()).filter(|i| !self.present[*i]).collect();
            match rng.below(if self.wild { 13 } else { 12 }) {
                0 | 1 if present.len() > 3 => {
                    let i = *rng.pick(&present);
                    self.present[i] = false;
                }
                2 | 3 if !absent.is_empty() && (self.wild || !recreated) => {
                    // preferably a host some partly unresolved tablet is waiting for
                    let waiting: Vec<usize> = absent.iter().copied().filter(|i| wanted.contains(&self.pool[*i].host)).collect();
                    let i = if !waiting.is_empty() && rng.chance(3, 4) { *rng.pick(&waiting) } else { *rng.pick(&absent) };
                    self.present[i] = true;
                    added = true;
                }
                4 | 5 if self.wild || !added => {
                    let i = *rng.pick(&present);
                    self.rack_ctr += 1;
                    self.pool[i].rack = Some(format!("rk{}", self.rack_ctr));
                    recreated = true;
                }
                6 if self.wild || !added => {
                    let i = *rng.pick(&present);
                    self.rack_ctr += 1;
                    self.pool[i].addr = format!("127.1.{}.{}:{}", self.rack_ctr / 250, self.rack_ctr % 250 + 1, 9042 + (self.rack_ctr % 3) as u16).parse().unwrap();
                    recreated = true;
                }
                7 => {
                    let i = rng.below(self.kss_full.len() as u64) as usize;
                    self.kss_full[i].tablet_based = !self.kss_full[i].tablet_based;
                }
                8 | 9 => {
                    // drop / re-create a table
                    let i = rng.below(2) as usize;
                    let all = [["ta1", "ta2"], ["tb1", "tb2"]][i];
                    let t = all[rng.below(2) as usize].to_owned();
                    let tables = &mut self.kss_full[i].tables;
                    if let Some(p) = tables.iter().position(|x| *x == t) {
                        tables.remove(p);
                    } else {
                        tables.push(t);
                    }
                }
                10 | 11 => {
                    // drop / re-create a keyspace
                    let name = self.kss_full[rng.below(self.kss_full.len() as u64) as usize].name.clone();
                    if let Some(p) = self.kss.iter().position(|k| k.name == name) {
                        self.kss.remove(p);
                    } else {
                        self.kss.push(self.kss_full.iter().find(|k| k.name == name).unwrap().clone());
                    }
                }
                12 => {
                    let i = *rng.pick(&present);
                    self.pool[i].dc = Some(["dc1", "dc2", "dc3"][rng.below(3) as usize].to_owned());
                    recreated = true;
                }
                _ => {}
            }
        }
        // the visible schema = the non-dropped keyspaces in their current definition
        let names: Vec<String> = self.kss.iter().map(|k| k.name.clone()).collect();
        self.kss = self.kss_full.iter().filter(|k| names.contains(&k.name)).cloned().collect();
        Op::Refresh { peers: self.current_peers(), keyspaces: self.kss.clone(), partial: false }
    }
}

/// coverage classes of a refresh, from the model before / after
fn refresh_classes(o: &mut Outcome, before: &crate::refmodel::tablets::Model, w: &World, old_peers: &[PeerSpec], old_kss: &[KsSpec]) {
    let after = &w.model;
    if old_peers == w.peers.as_slice() && old_kss == w.keyspaces.as_slice() {
        o.class("maint:noop-refresh");
    }
    let present = |h: u128| w.peers.iter().any(|p| p.host == h);
    let was = |h: u128| old_peers.iter().any(|p| p.host == h);
    let recreated = |h: u128| old_peers.iter().any(|op| op.host == h && w.peers.iter().any(|np| np.host == h && np != op));
    for ((ksn, tn), live) in &before.tables {
        let key = (ksn.clone(), tn.clone());
        match after.tables.get(&key) {
            None => {
                if !live.is_empty() {
                    match w.keyspaces.iter().find(|k| k.name == *ksn) {
                        Some(k) if !k.tablet_based => o.class("maint:keyspace-not-tablet-drops"),
                        Some(_) => o.class("maint:table-dropped"),
                        None => o.class("maint:keyspace-dropped"),
                    }
                }
            }
            Some(now) => {
                for t in live {
                    let kept = now.iter().any(|n| n.seq == t.seq);
                    let removed_host = t.full.iter().any(|(h, _)| was(*h) && !present(*h));
                    if !kept && removed_host {
                        o.class("maint:node-removed-discards");
                    }
                    if t.unresolved && kept {
                        o.class("maint:unknown-resolved");
                    }
                    if t.unresolved && !kept && !removed_host {
                        o.class("maint:unknown-unresolved-discards");
                    }
                    if kept && t.full.iter().any(|(h, _)| recreated(*h)) {
                        o.class("maint:node-recreated");
                    }
                }
            }
        }
    }
}

fn one_history(o: &mut Outcome, rt: &tokio::runtime::Runtime, rng: &mut Rng, len: usize, cls: &mut Classes, hist_no: u64, budget: &mut u64) {
    let pool = host_pool();
    let mut g = Gen {
        present: (0..pool.len()).map(|i| i < 8).collect(),
        pool,
        kss_full: initial_kss(),
        kss: initial_kss(),
        bounds: Vec::new(),
        wild: hist_no % 4 == 3,
        rack_ctr: 0,
    };
    let peers0 = g.current_peers();
    let kss0 = g.kss.clone();
    let mut ops: Vec<Op> = Vec::with_capacity(len);
    let mut w = match World::new(rt, &peers0, &kss0) {
        Ok(w) => w,
        Err(f) => {
            report(o, "random", 0, &f, &peers0, &kss0, &[], &[]);
            return;
        }
    };
    o.class(if g.wild { "random:history-with-dc-changes" } else { "random:history" });
    for step in 0..len {
        let op = if rng.chance(1, 7) {
            let wanted: Vec<u128> = w.model.tables.values().flatten().filter(|t| t.unresolved).flat_map(|t| t.full.iter().map(|r| r.0)).collect();
            if rng.chance(1, 3) {
                // partial topology refresh: whatever the generator did to the schema is taken back
                let (k, kf) = (g.kss.clone(), g.kss_full.clone());
                let op = g.refresh(rng, &wanted);
                g.kss = k;
                g.kss_full = kf;
                o.class("maint:partial-topology-refresh");
                match op {
                    Op::Refresh { peers, .. } => Op::Refresh { peers, keyspaces: w.keyspaces.clone(), partial: true },
                    other => other,
                }
            } else {
                g.refresh(rng, &wanted)
            }
        } else if rng.chance(1, 6) {
            // a batch: 2-4 tablets (often of one table, often overlapping: ranges are drawn from the remembered bounds)
            let (k0, t0) = g.weighted_table(rng);
            let mut items = Vec::new();
            for _ in 0..rng.usize(2, 4) {
                let (k, t) = if rng.chance(3, 4) { (k0.clone(), t0.clone()) } else { g.weighted_table(rng) };
                let (first, last) = g.range(rng);
                g.remember(rng, first);
                g.remember(rng, last);
                items.push((k, t, first, last, g.replicas(rng)));
            }
            o.class("batch:several-tablets-in-one-update");
            Op::Batch { items }
        } else {
            let (k, t) = g.weighted_table(rng);
            let (first, last) = g.range(rng);
            g.remember(rng, first);
            g.remember(rng, last);
            Op::Add { ks: k, table: t, first, last, replicas: g.replicas(rng) }
        };
        ops.push(op.clone());
        // class bookkeeping needs the state before
        let before = match &op {
            Op::Refresh { .. } => Some((w.model.clone(), w.peers.clone(), w.keyspaces.clone())),
            _ => None,
        };
        if let Op::Add { ks, table, first, last, replicas } = &op {
            if let Ok((f, l, _)) = crate::refmodel::tablets::admit(*first, *last, replicas) {
                let live = w.model.table(ks, table).cloned().unwrap_or_default();
                cls.note_insert(&live, f, l);
            }
        }
        let extra: Vec<i64> = (0..6).map(|_| rng.u64() as i64).collect();
        let res = w.exec(&op).and_then(|what| {
            match (what, &op) {
                ("refused", Op::Add { first, last, .. }) if last <= first => o.class("payload:refused-range"),
                ("refused", _) => o.class("payload:refused-negative-shard"),
                ("accepted", _) => o.class("payload:accepted"),
                _ => {}
            }
            if let Some((m, p, k)) = &before {
                refresh_classes(o, m, &w, p, k);
            }
            let q = world::queries_around(&w.model, Some(&op), &extra, 48, Some(rng));
            w.check(&q)
        });
        if *budget > 0 {
            *budget -= 1;
            o.case(fw::hash64(format!("R:{hist_no}:{step}:{:?}", op).as_bytes()), true);
        } else {
            o.evals(1);
        }
        if let Err(f) = res {
            report(o, "random", step, &f, &peers0, &kss0, &ops, &extra);
            break;
        }
    }
    o.class_n("lookup:answered", w.cnt.answered);
    o.class_n("lookup:nothing-after-discard", w.cnt.nothing_after_discard);
    o.class_n("lookup:dc-restriction-nonempty", w.cnt.dc_nonempty);
    o.class_n("lookup:answered-by-partly-unresolved-tablet", w.cnt.unresolved_answer);
    o.note_add("lookups", w.cnt.lookups);
    o.note_add("random.steps", ops.len() as u64);
    o.note_add("random.histories", 1);
}

pub fn run(ctx: &Ctx) -> Outcome {
    let workers = ctx.workers;
    let histories = if ctx.miri() { 1 } else { ctx.vol(4_000, 40_000) };
    let len = if ctx.miri() { 20 } else if ctx.quick() { 250 } else { 600 };
    let mut out = fw::par(ctx, workers, |w, mut rng| {
        let mut o = Outcome::new();
        let rt = runtime();
        let mut cls = Classes::default();
        let mut h = w as u64;
        // the distinct-case set is bounded (memory); everything beyond is only counted
        let mut budget = 250_000u64;
        while h < histories {
            one_history(&mut o, &rt, &mut rng, len, &mut cls, h, &mut budget);
            h += workers as u64;
        }
        cls.flush(&mut o);
        o
    });
    out.note("random.history_length", json!(len));
    out
}
