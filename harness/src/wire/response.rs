//! Response message bodies (server → client), encoded per the v4 spec
//! (+ ScyllaDB's SCYLLA_USE_METADATA_ID layout, which follows CQL v5).

use super::frame::Opcode;
use super::prim::Writer;
use std::collections::BTreeMap;
use std::net::IpAddr;

#[derive(Debug, Clone, PartialEq, Eq, Hash)]
pub enum ColType {
    Custom(String),
    Ascii,
    BigInt,
    Blob,
    Boolean,
    Counter,
    Decimal,
    Double,
    Float,
    Int,
    Timestamp,
    Uuid,
    Text,
    Varint,
    Timeuuid,
    Inet,
    Date,
    Time,
    SmallInt,
    TinyInt,
    Duration,
    List(Box<ColType>),
    Map(Box<ColType>, Box<ColType>),
    Set(Box<ColType>),
    Udt { keyspace: String, name: String, fields: Vec<(String, ColType)> },
    Tuple(Vec<ColType>),
    /// raw, possibly invalid option id followed by raw bytes (for hostile inputs)
    Raw(u16, Vec<u8>),
}

impl ColType {
    pub fn id(&self) -> u16 {
        use ColType::*;
        match self {
            Custom(_) => 0x0000,
            Ascii => 0x0001,
            BigInt => 0x0002,
            Blob => 0x0003,
            Boolean => 0x0004,
            Counter => 0x0005,
            Decimal => 0x0006,
            Double => 0x0007,
            Float => 0x0008,
            Int => 0x0009,
            Timestamp => 0x000B,
            Uuid => 0x000C,
            Text => 0x000D,
            Varint => 0x000E,
            Timeuuid => 0x000F,
            Inet => 0x0010,
            Date => 0x0011,
            Time => 0x0012,
            SmallInt => 0x0013,
            TinyInt => 0x0014,
            Duration => 0x0015,
            List(_) => 0x0020,
            Map(..) => 0x0021,
            Set(_) => 0x0022,
            Udt { .. } => 0x0030,
            Tuple(_) => 0x0031,
            Raw(id, _) => *id,
        }
    }
    pub fn encode(&self, w: &mut Writer) {
        w.short(self.id());
        match self {
            ColType::Custom(s) => w.string(s),
            ColType::List(t) | ColType::Set(t) => t.encode(w),
            ColType::Map(k, v) => {
                k.encode(w);
                v.encode(w);
            }
            ColType::Udt { keyspace, name, fields } => {
                w.string(keyspace);
                w.string(name);
                w.short(fields.len() as u16);
                for (n, t) in fields {
                    w.string(n);
                    t.encode(w);
                }
            }
            ColType::Tuple(ts) => {
                w.short(ts.len() as u16);
                for t in ts {
                    t.encode(w);
                }
            }
            ColType::Raw(_, rest) => w.raw(rest),
            _ => {}
        }
    }
}

#[derive(Debug, Clone, PartialEq, Eq)]
pub struct ColSpec {
    pub keyspace: String,
    pub table: String,
    pub name: String,
    pub typ: ColType,
}

impl ColSpec {
    pub fn new(ks: &str, table: &str, name: &str, typ: ColType) -> Self {
        Self { keyspace: ks.into(), table: table.into(), name: name.into(), typ }
    }
}

fn encode_col_specs(w: &mut Writer, cols: &[ColSpec], global: bool) {
    if global {
        let (ks, t) = cols.first().map(|c| (c.keyspace.as_str(), c.table.as_str())).unwrap_or(("", ""));
        w.string(ks);
        w.string(t);
    }
    for c in cols {
        if !global {
            w.string(&c.keyspace);
            w.string(&c.table);
        }
        w.string(&c.name);
        c.typ.encode(w);
    }
}

pub const RM_GLOBAL_SPEC: i32 = 0x0001;
pub const RM_HAS_MORE_PAGES: i32 = 0x0002;
pub const RM_NO_METADATA: i32 = 0x0004;
pub const RM_METADATA_CHANGED: i32 = 0x0008;

#[derive(Debug, Clone, PartialEq, Eq, Default)]
pub struct ResultMetadata {
    pub columns: Vec<ColSpec>,
    pub paging_state: Option<Vec<u8>>,
    /// send NO_METADATA (column count still written, no specs)
    pub no_metadata: bool,
    pub global_spec: bool,
    /// METADATA_CHANGED + new id (only meaningful with SCYLLA_USE_METADATA_ID)
    pub new_metadata_id: Option<Vec<u8>>,
}

impl ResultMetadata {
    pub fn flags(&self) -> i32 {
        (if self.global_spec && !self.no_metadata && !self.columns.is_empty() { RM_GLOBAL_SPEC } else { 0 })
            | (if self.paging_state.is_some() { RM_HAS_MORE_PAGES } else { 0 })
            | (if self.no_metadata { RM_NO_METADATA } else { 0 })
            | (if self.new_metadata_id.is_some() { RM_METADATA_CHANGED } else { 0 })
    }
    pub fn encode(&self, w: &mut Writer) {
        let flags = self.flags();
        w.int(flags);
        w.int(self.columns.len() as i32);
        if let Some(ps) = &self.paging_state {
            w.bytes(ps);
        }
        if let Some(id) = &self.new_metadata_id {
            w.short_bytes(id);
        }
        if !self.no_metadata {
            encode_col_specs(w, &self.columns, flags & RM_GLOBAL_SPEC != 0);
        }
    }
}

#[derive(Debug, Clone, PartialEq, Eq, Default)]
pub struct PreparedMetadata {
    /// extra flag bits (e.g. the negotiated LWT mark); GLOBAL_SPEC is added automatically
    pub extra_flags: i32,
    pub columns: Vec<ColSpec>,
    pub pk_indexes: Vec<u16>,
    pub global_spec: bool,
}

impl PreparedMetadata {
    pub fn encode(&self, w: &mut Writer) {
        let global = self.global_spec && !self.columns.is_empty();
        w.int(self.extra_flags | if global { RM_GLOBAL_SPEC } else { 0 });
        w.int(self.columns.len() as i32);
        w.int(self.pk_indexes.len() as i32);
        for i in &self.pk_indexes {
            w.short(*i);
        }
        encode_col_specs(w, &self.columns, global);
    }
}

pub type Row = Vec<Option<Vec<u8>>>;

#[derive(Debug, Clone, PartialEq, Eq)]
pub enum ResultBody {
    Void,
    Rows { metadata: ResultMetadata, rows: Vec<Row> },
    SetKeyspace(String),
    Prepared {
        id: Vec<u8>,
        /// written only when Some (SCYLLA_USE_METADATA_ID negotiated)
        result_metadata_id: Option<Vec<u8>>,
        prepared_metadata: PreparedMetadata,
        result_metadata: ResultMetadata,
    },
    SchemaChange(SchemaChange),
}

#[derive(Debug, Clone, PartialEq, Eq)]
pub struct SchemaChange {
    pub change_type: String,
    pub target: String,
    pub keyspace: String,
    pub name: Option<String>,
    pub args: Option<Vec<String>>,
}

impl SchemaChange {
    pub fn encode(&self, w: &mut Writer) {
        w.string(&self.change_type);
        w.string(&self.target);
        w.string(&self.keyspace);
        if let Some(n) = &self.name {
            w.string(n);
        }
        if let Some(a) = &self.args {
            w.string_list(a);
        }
    }
}

impl ResultBody {
    pub fn encode(&self, w: &mut Writer) {
        match self {
            ResultBody::Void => w.int(1),
            ResultBody::Rows { metadata, rows } => {
                w.int(2);
                metadata.encode(w);
                w.int(rows.len() as i32);
                for row in rows {
                    for cell in row {
                        w.bytes_opt(cell.as_deref());
                    }
                }
            }
            ResultBody::SetKeyspace(k) => {
                w.int(3);
                w.string(k);
            }
            ResultBody::Prepared { id, result_metadata_id, prepared_metadata, result_metadata } => {
                w.int(4);
                w.short_bytes(id);
                if let Some(m) = result_metadata_id {
                    w.short_bytes(m);
                }
                prepared_metadata.encode(w);
                result_metadata.encode(w);
            }
            ResultBody::SchemaChange(sc) => {
                w.int(5);
                sc.encode(w);
            }
        }
    }
}

/// Error codes of the v4 spec.
pub mod errcode {
    pub const SERVER_ERROR: i32 = 0x0000;
    pub const PROTOCOL_ERROR: i32 = 0x000A;
    pub const AUTH_ERROR: i32 = 0x0100;
    pub const UNAVAILABLE: i32 = 0x1000;
    pub const OVERLOADED: i32 = 0x1001;
    pub const IS_BOOTSTRAPPING: i32 = 0x1002;
    pub const TRUNCATE_ERROR: i32 = 0x1003;
    pub const WRITE_TIMEOUT: i32 = 0x1100;
    pub const READ_TIMEOUT: i32 = 0x1200;
    pub const READ_FAILURE: i32 = 0x1300;
    pub const FUNCTION_FAILURE: i32 = 0x1400;
    pub const WRITE_FAILURE: i32 = 0x1500;
    pub const SYNTAX_ERROR: i32 = 0x2000;
    pub const UNAUTHORIZED: i32 = 0x2100;
    pub const INVALID: i32 = 0x2200;
    pub const CONFIG_ERROR: i32 = 0x2300;
    pub const ALREADY_EXISTS: i32 = 0x2400;
    pub const UNPREPARED: i32 = 0x2500;
}

#[derive(Debug, Clone, PartialEq, Eq)]
pub enum ErrorExtra {
    None,
    Unavailable { cl: u16, required: i32, alive: i32 },
    WriteTimeout { cl: u16, received: i32, blockfor: i32, write_type: String },
    ReadTimeout { cl: u16, received: i32, blockfor: i32, data_present: u8 },
    ReadFailure { cl: u16, received: i32, blockfor: i32, numfailures: i32, data_present: u8 },
    FunctionFailure { keyspace: String, function: String, arg_types: Vec<String> },
    WriteFailure { cl: u16, received: i32, blockfor: i32, numfailures: i32, write_type: String },
    AlreadyExists { keyspace: String, table: String },
    Unprepared { id: Vec<u8> },
    /// ScyllaDB rate-limit extension: op_type byte, rejected_by_coordinator byte
    RateLimit { op_type: u8, rejected_by_coordinator: u8 },
    Raw(Vec<u8>),
}

#[derive(Debug, Clone, PartialEq, Eq)]
pub struct ErrorBody {
    pub code: i32,
    pub message: String,
    pub extra: ErrorExtra,
}

impl ErrorBody {
    pub fn simple(code: i32, msg: &str) -> Self {
        Self { code, message: msg.into(), extra: ErrorExtra::None }
    }
    pub fn unprepared(id: &[u8]) -> Self {
        Self { code: errcode::UNPREPARED, message: "unprepared".into(), extra: ErrorExtra::Unprepared { id: id.to_vec() } }
    }
    pub fn encode(&self, w: &mut Writer) {
        w.int(self.code);
        w.string(&self.message);
        match &self.extra {
            ErrorExtra::None => {}
            ErrorExtra::Unavailable { cl, required, alive } => {
                w.short(*cl);
                w.int(*required);
                w.int(*alive);
            }
            ErrorExtra::WriteTimeout { cl, received, blockfor, write_type } => {
                w.short(*cl);
                w.int(*received);
                w.int(*blockfor);
                w.string(write_type);
            }
            ErrorExtra::ReadTimeout { cl, received, blockfor, data_present } => {
                w.short(*cl);
                w.int(*received);
                w.int(*blockfor);
                w.byte(*data_present);
            }
            ErrorExtra::ReadFailure { cl, received, blockfor, numfailures, data_present } => {
                w.short(*cl);
                w.int(*received);
                w.int(*blockfor);
                w.int(*numfailures);
                w.byte(*data_present);
            }
            ErrorExtra::FunctionFailure { keyspace, function, arg_types } => {
                w.string(keyspace);
                w.string(function);
                w.string_list(arg_types);
            }
            ErrorExtra::WriteFailure { cl, received, blockfor, numfailures, write_type } => {
                w.short(*cl);
                w.int(*received);
                w.int(*blockfor);
                w.int(*numfailures);
                w.string(write_type);
            }
            ErrorExtra::AlreadyExists { keyspace, table } => {
                w.string(keyspace);
                w.string(table);
            }
            ErrorExtra::Unprepared { id } => w.short_bytes(id),
            ErrorExtra::RateLimit { op_type, rejected_by_coordinator } => {
                w.byte(*op_type);
                w.byte(*rejected_by_coordinator);
            }
            ErrorExtra::Raw(b) => w.raw(b),
        }
    }
}

#[derive(Debug, Clone, PartialEq, Eq)]
pub enum Event {
    TopologyChange { change: String, addr: IpAddr, port: i32 },
    StatusChange { change: String, addr: IpAddr, port: i32 },
    SchemaChange(SchemaChange),
}

impl Event {
    pub fn encode(&self, w: &mut Writer) {
        match self {
            Event::TopologyChange { change, addr, port } => {
                w.string("TOPOLOGY_CHANGE");
                w.string(change);
                w.inet(*addr, *port);
            }
            Event::StatusChange { change, addr, port } => {
                w.string("STATUS_CHANGE");
                w.string(change);
                w.inet(*addr, *port);
            }
            Event::SchemaChange(sc) => {
                w.string("SCHEMA_CHANGE");
                sc.encode(w);
            }
        }
    }
}

#[derive(Debug, Clone, PartialEq, Eq)]
pub enum Response {
    Error(ErrorBody),
    Ready,
    Authenticate(String),
    Supported(BTreeMap<String, Vec<String>>),
    Result(ResultBody),
    Event(Event),
    AuthChallenge(Option<Vec<u8>>),
    AuthSuccess(Option<Vec<u8>>),
}

impl Response {
    pub fn opcode(&self) -> u8 {
        (match self {
            Response::Error(_) => Opcode::Error,
            Response::Ready => Opcode::Ready,
            Response::Authenticate(_) => Opcode::Authenticate,
            Response::Supported(_) => Opcode::Supported,
            Response::Result(_) => Opcode::Result,
            Response::Event(_) => Opcode::Event,
            Response::AuthChallenge(_) => Opcode::AuthChallenge,
            Response::AuthSuccess(_) => Opcode::AuthSuccess,
        }) as u8
    }
    pub fn encode_body(&self) -> Vec<u8> {
        let mut w = Writer::new();
        match self {
            Response::Error(e) => e.encode(&mut w),
            Response::Ready => {}
            Response::Authenticate(s) => w.string(s),
            Response::Supported(m) => w.string_multimap(m),
            Response::Result(r) => r.encode(&mut w),
            Response::Event(e) => e.encode(&mut w),
            Response::AuthChallenge(b) | Response::AuthSuccess(b) => w.bytes_opt(b.as_deref()),
        }
        w.into_inner()
    }
}
