//! Independent CQL binary protocol v4 codec, written from the protocol
//! specification (native_protocol_v4.spec + the ScyllaDB extensions the driver
//! negotiates). It deliberately shares NO code with scylla-cql: it is the
//! oracle for request frames (C09), the generator of well-formed responses
//! (C08) and the language the mock cluster speaks.

pub mod prim;
pub mod frame;
pub mod request;
pub mod response;

pub use frame::{FrameHeader, Opcode};
pub use prim::{Reader, WireError, Writer};

#[cfg(test)]
mod tests {}

/// Self-test run by checks before they trust this codec: round-trips its own
/// frames and decodes byte vectors pinned from the protocol spec examples.
pub fn self_test() -> Result<(), String> {
    use request::*;
    use response::*;
    // primitives
    let mut w = Writer::new();
    w.string("héllo");
    w.long_string("x");
    w.bytes_opt(None);
    w.bytes_opt(Some(&[1, 2, 3]));
    w.short_bytes(&[9]);
    w.int(-2);
    w.long(i64::MIN);
    w.short(65535);
    let buf = w.into_inner();
    let mut r = Reader::new(&buf);
    let ok = r.string().map_err(|e| e.0)? == "héllo"
        && r.long_string().map_err(|e| e.0)? == "x"
        && r.bytes_opt().map_err(|e| e.0)?.is_none()
        && r.bytes_opt().map_err(|e| e.0)? == Some(vec![1, 2, 3])
        && r.short_bytes().map_err(|e| e.0)? == vec![9]
        && r.int().map_err(|e| e.0)? == -2
        && r.long().map_err(|e| e.0)? == i64::MIN
        && r.short().map_err(|e| e.0)? == 65535
        && r.remaining() == 0;
    if !ok {
        return Err("primitive round trip failed".into());
    }
    // a QUERY body written by hand per the spec:
    // <long string "SELECT 1"> <consistency ONE=0x0001> <flags 0x04|0x20> <page_size 100> <timestamp 7>
    let mut body = vec![0, 0, 0, 8];
    body.extend_from_slice(b"SELECT 1");
    body.extend_from_slice(&[0, 1, 0x24, 0, 0, 0, 100, 0, 0, 0, 0, 0, 0, 0, 7]);
    match parse_request(Opcode::Query as u8, &body, &Extensions::default()) {
        Ok(Request::Query { query, params }) => {
            if query != "SELECT 1"
                || params.consistency != 1
                || params.page_size != Some(100)
                || params.timestamp != Some(7)
                || params.values.is_some()
                || params.skip_metadata
            {
                return Err(format!("hand-written QUERY decoded wrongly: {params:?}"));
            }
        }
        other => return Err(format!("hand-written QUERY not decoded: {other:?}")),
    }
    // response round trip through our own reader of the rows result
    let meta = ResultMetadata {
        columns: vec![
            ColSpec::new("ks", "t", "a", ColType::Int),
            ColSpec::new("ks", "t", "b", ColType::List(Box::new(ColType::Text))),
        ],
        paging_state: Some(vec![1, 2]),
        no_metadata: false,
        global_spec: true,
        new_metadata_id: None,
    };
    let resp = Response::Result(ResultBody::Rows {
        metadata: meta,
        rows: vec![vec![Some(vec![0, 0, 0, 5]), None]],
    });
    let body = resp.encode_body();
    let want_prefix = [0u8, 0, 0, 2, 0, 0, 0, 3, 0, 0, 0, 2, 0, 0, 0, 2, 1, 2, 0, 2, b'k', b's', 0, 1, b't'];
    if body.len() < want_prefix.len() || body[..want_prefix.len()] != want_prefix {
        return Err(format!("rows result prefix differs from the spec layout: {:?}", &body[..want_prefix.len().min(body.len())]));
    }
    // header
    let h = FrameHeader {
        version: 0x84,
        flags: 0,
        stream: 258,
        opcode: Opcode::Result as u8,
        length: 5,
    };
    if h.encode() != [0x84, 0, 1, 2, 8, 0, 0, 0, 5] {
        return Err("header layout".into());
    }
    Ok(())
}
