//! Frame header, opcodes, compression, async frame I/O.

use super::prim::{Reader, WResult, WireError, Writer};
use std::collections::BTreeMap;
use tokio::io::{AsyncRead, AsyncReadExt};

#[repr(u8)]
#[derive(Debug, Clone, Copy, PartialEq, Eq)]
pub enum Opcode {
    Error = 0x00,
    Startup = 0x01,
    Ready = 0x02,
    Authenticate = 0x03,
    Options = 0x05,
    Supported = 0x06,
    Query = 0x07,
    Result = 0x08,
    Prepare = 0x09,
    Execute = 0x0A,
    Register = 0x0B,
    Event = 0x0C,
    Batch = 0x0D,
    AuthChallenge = 0x0E,
    AuthResponse = 0x0F,
    AuthSuccess = 0x10,
}

pub const FLAG_COMPRESSION: u8 = 0x01;
pub const FLAG_TRACING: u8 = 0x02;
pub const FLAG_CUSTOM_PAYLOAD: u8 = 0x04;
pub const FLAG_WARNING: u8 = 0x08;

#[derive(Debug, Clone, Copy, PartialEq, Eq)]
pub struct FrameHeader {
    pub version: u8,
    pub flags: u8,
    pub stream: i16,
    pub opcode: u8,
    pub length: u32,
}

impl FrameHeader {
    pub fn encode(&self) -> [u8; 9] {
        let s = self.stream.to_be_bytes();
        let l = self.length.to_be_bytes();
        [self.version, self.flags, s[0], s[1], self.opcode, l[0], l[1], l[2], l[3]]
    }
    pub fn parse(b: &[u8]) -> WResult<FrameHeader> {
        if b.len() < 9 {
            return Err(WireError("short header".into()));
        }
        Ok(FrameHeader {
            version: b[0],
            flags: b[1],
            stream: i16::from_be_bytes([b[2], b[3]]),
            opcode: b[4],
            length: u32::from_be_bytes([b[5], b[6], b[7], b[8]]),
        })
    }
}

#[derive(Debug, Clone, Copy, PartialEq, Eq)]
pub enum Compression {
    Lz4,
    Snappy,
}

pub fn compress(c: Compression, body: &[u8]) -> Vec<u8> {
    match c {
        Compression::Lz4 => {
            // CQL: 4-byte big-endian uncompressed length, then an LZ4 block
            let mut out = (body.len() as u32).to_be_bytes().to_vec();
            out.extend_from_slice(&lz4_flex::block::compress(body));
            out
        }
        Compression::Snappy => snap::raw::Encoder::new().compress_vec(body).expect("snappy"),
    }
}

pub fn decompress(c: Compression, body: &[u8]) -> WResult<Vec<u8>> {
    match c {
        Compression::Lz4 => {
            if body.len() < 4 {
                return Err(WireError("lz4 body shorter than its length prefix".into()));
            }
            let n = u32::from_be_bytes([body[0], body[1], body[2], body[3]]) as usize;
            if n == 0 {
                return Ok(Vec::new());
            }
            lz4_flex::block::decompress(&body[4..], n).map_err(|e| WireError(format!("lz4: {e}")))
        }
        Compression::Snappy => snap::raw::Decoder::new()
            .decompress_vec(body)
            .map_err(|e| WireError(format!("snappy: {e}"))),
    }
}

/// A full frame as bytes: header + body (body already compressed if flag set).
pub fn encode_frame(version: u8, flags: u8, stream: i16, opcode: u8, body: &[u8]) -> Vec<u8> {
    let h = FrameHeader {
        version,
        flags,
        stream,
        opcode,
        length: body.len() as u32,
    };
    let mut v = h.encode().to_vec();
    v.extend_from_slice(body);
    v
}

/// Envelope parts that precede a response message body, selected by frame flags.
#[derive(Debug, Clone, Default, PartialEq, Eq)]
pub struct Envelope {
    pub tracing_id: Option<[u8; 16]>,
    pub warnings: Option<Vec<String>>,
    pub custom_payload: Option<BTreeMap<String, Vec<u8>>>,
}

impl Envelope {
    pub fn flags(&self) -> u8 {
        (if self.tracing_id.is_some() { FLAG_TRACING } else { 0 })
            | (if self.warnings.is_some() { FLAG_WARNING } else { 0 })
            | (if self.custom_payload.is_some() { FLAG_CUSTOM_PAYLOAD } else { 0 })
    }
    pub fn encode(&self, w: &mut Writer) {
        if let Some(t) = &self.tracing_id {
            w.uuid(t);
        }
        if let Some(ws) = &self.warnings {
            w.string_list(ws);
        }
        if let Some(p) = &self.custom_payload {
            w.bytes_map(p);
        }
    }
}

/// Builds a complete response frame (version 0x84).
pub fn response_frame(
    stream: i16,
    opcode: u8,
    env: &Envelope,
    message_body: &[u8],
    compression: Option<Compression>,
) -> Vec<u8> {
    let mut w = Writer::new();
    env.encode(&mut w);
    w.raw(message_body);
    let mut flags = env.flags();
    let body = match compression {
        Some(c) => {
            flags |= FLAG_COMPRESSION;
            compress(c, &w.buf)
        }
        None => w.buf,
    };
    encode_frame(0x84, flags, stream, opcode, &body)
}

/// Reads one frame (any direction) from a stream. `Ok(None)` on clean EOF before a header.
pub async fn read_frame<R: AsyncRead + Unpin>(r: &mut R, max_len: usize) -> std::io::Result<Option<(FrameHeader, Vec<u8>)>> {
    let mut hb = [0u8; 9];
    let mut got = 0;
    while got < 9 {
        let n = r.read(&mut hb[got..]).await?;
        if n == 0 {
            if got == 0 {
                return Ok(None);
            }
            return Err(std::io::Error::new(std::io::ErrorKind::UnexpectedEof, "eof inside frame header"));
        }
        got += n;
    }
    let h = FrameHeader::parse(&hb).unwrap();
    if h.length as usize > max_len {
        return Err(std::io::Error::new(std::io::ErrorKind::InvalidData, format!("frame of {} bytes exceeds limit", h.length)));
    }
    let mut body = vec![0u8; h.length as usize];
    r.read_exact(&mut body).await?;
    Ok(Some((h, body)))
}

/// Parses a request frame's body into (uncompressed body, tracing requested).
pub fn request_body(h: &FrameHeader, body: &[u8], negotiated: Option<Compression>) -> WResult<Vec<u8>> {
    if h.flags & FLAG_COMPRESSION != 0 {
        match negotiated {
            Some(c) => decompress(c, body),
            None => Err(WireError("compressed frame without negotiated compression".into())),
        }
    } else {
        Ok(body.to_vec())
    }
}

pub fn reader(b: &[u8]) -> Reader<'_> {
    Reader::new(b)
}
