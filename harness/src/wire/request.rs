//! Request message bodies (client → server), parsed per the v4 spec.

use super::frame::Opcode;
use super::prim::{Reader, Value, WResult, WireError};
use std::collections::BTreeMap;

/// Protocol extensions negotiated on the connection that change request layout.
#[derive(Debug, Clone, Copy, Default, PartialEq, Eq)]
pub struct Extensions {
    /// SCYLLA_USE_METADATA_ID: EXECUTE carries <result_metadata_id> ([short bytes]) after the id.
    pub metadata_id: bool,
}

#[derive(Debug, Clone, PartialEq, Eq, Default)]
pub struct QueryParams {
    pub consistency: u16,
    pub flags: u8,
    /// None: VALUES flag absent
    pub values: Option<Vec<Value>>,
    /// names present (flag 0x40)
    pub names: Option<Vec<String>>,
    pub skip_metadata: bool,
    pub page_size: Option<i32>,
    pub paging_state: Option<Vec<u8>>,
    pub serial_consistency: Option<u16>,
    pub timestamp: Option<i64>,
}

#[derive(Debug, Clone, PartialEq, Eq)]
pub enum BatchStatement {
    Query { query: String, values: Vec<Value> },
    Prepared { id: Vec<u8>, values: Vec<Value> },
}

#[derive(Debug, Clone, PartialEq, Eq)]
pub enum Request {
    Startup { options: BTreeMap<String, String> },
    Options,
    AuthResponse { token: Option<Vec<u8>> },
    Register { events: Vec<String> },
    Query { query: String, params: QueryParams },
    Prepare { query: String },
    Execute { id: Vec<u8>, result_metadata_id: Option<Vec<u8>>, params: QueryParams },
    Batch {
        batch_type: u8,
        statements: Vec<BatchStatement>,
        consistency: u16,
        flags: u8,
        serial_consistency: Option<u16>,
        timestamp: Option<i64>,
    },
}

pub const QF_VALUES: u8 = 0x01;
pub const QF_SKIP_METADATA: u8 = 0x02;
pub const QF_PAGE_SIZE: u8 = 0x04;
pub const QF_PAGING_STATE: u8 = 0x08;
pub const QF_SERIAL: u8 = 0x10;
pub const QF_TIMESTAMP: u8 = 0x20;
pub const QF_NAMES: u8 = 0x40;

fn read_values(r: &mut Reader, with_names: bool) -> WResult<(Vec<Value>, Option<Vec<String>>)> {
    let n = r.short()? as usize;
    let mut vals = Vec::with_capacity(n.min(1 << 16));
    let mut names = if with_names { Some(Vec::new()) } else { None };
    for _ in 0..n {
        if let Some(ns) = names.as_mut() {
            ns.push(r.string()?);
        }
        vals.push(Value::read(r)?);
    }
    Ok((vals, names))
}

pub fn read_query_params(r: &mut Reader) -> WResult<QueryParams> {
    let consistency = r.short()?;
    let flags = r.byte()?;
    let mut p = QueryParams {
        consistency,
        flags,
        skip_metadata: flags & QF_SKIP_METADATA != 0,
        ..Default::default()
    };
    if flags & QF_VALUES != 0 {
        let (v, n) = read_values(r, flags & QF_NAMES != 0)?;
        p.values = Some(v);
        p.names = n;
    }
    if flags & QF_PAGE_SIZE != 0 {
        p.page_size = Some(r.int()?);
    }
    if flags & QF_PAGING_STATE != 0 {
        p.paging_state = Some(r.bytes_opt()?.unwrap_or_default());
    }
    if flags & QF_SERIAL != 0 {
        p.serial_consistency = Some(r.short()?);
    }
    if flags & QF_TIMESTAMP != 0 {
        p.timestamp = Some(r.long()?);
    }
    if flags & 0x80 != 0 {
        return Err(WireError(format!("unknown query flag bit in {flags:#x}")));
    }
    Ok(p)
}

/// Parses one request body. The whole body must be consumed.
pub fn parse_request(opcode: u8, body: &[u8], ext: &Extensions) -> WResult<Request> {
    let mut r = Reader::new(body);
    let req = match opcode {
        x if x == Opcode::Startup as u8 => Request::Startup { options: r.string_map()? },
        x if x == Opcode::Options as u8 => Request::Options,
        x if x == Opcode::AuthResponse as u8 => Request::AuthResponse { token: r.bytes_opt()? },
        x if x == Opcode::Register as u8 => Request::Register { events: r.string_list()? },
        x if x == Opcode::Query as u8 => {
            let query = r.long_string()?;
            let params = read_query_params(&mut r)?;
            Request::Query { query, params }
        }
        x if x == Opcode::Prepare as u8 => Request::Prepare { query: r.long_string()? },
        x if x == Opcode::Execute as u8 => {
            let id = r.short_bytes()?;
            let result_metadata_id = if ext.metadata_id { Some(r.short_bytes()?) } else { None };
            let params = read_query_params(&mut r)?;
            Request::Execute { id, result_metadata_id, params }
        }
        x if x == Opcode::Batch as u8 => {
            let batch_type = r.byte()?;
            let n = r.short()? as usize;
            let mut statements = Vec::with_capacity(n.min(1 << 16));
            for _ in 0..n {
                let kind = r.byte()?;
                match kind {
                    0 => {
                        let query = r.long_string()?;
                        let (values, _) = read_values(&mut r, false)?;
                        statements.push(BatchStatement::Query { query, values });
                    }
                    1 => {
                        let id = r.short_bytes()?;
                        let (values, _) = read_values(&mut r, false)?;
                        statements.push(BatchStatement::Prepared { id, values });
                    }
                    k => return Err(WireError(format!("bad batch statement kind {k}"))),
                }
            }
            let consistency = r.short()?;
            let flags = r.byte()?;
            let serial_consistency = if flags & QF_SERIAL != 0 { Some(r.short()?) } else { None };
            let timestamp = if flags & QF_TIMESTAMP != 0 { Some(r.long()?) } else { None };
            if flags & !(QF_SERIAL | QF_TIMESTAMP | QF_NAMES) != 0 {
                return Err(WireError(format!("illegal batch flags {flags:#x}")));
            }
            Request::Batch { batch_type, statements, consistency, flags, serial_consistency, timestamp }
        }
        o => return Err(WireError(format!("unknown request opcode {o:#x}"))),
    };
    if r.remaining() != 0 {
        return Err(WireError(format!("{} trailing bytes after the request body", r.remaining())));
    }
    Ok(req)
}
