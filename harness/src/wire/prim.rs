//! CQL primitive notations ([int], [long], [short], [string], [bytes], ...).

use std::collections::BTreeMap;
use std::net::{IpAddr, Ipv4Addr, Ipv6Addr};

#[derive(Debug, Clone, PartialEq, Eq)]
pub struct WireError(pub String);

pub type WResult<T> = Result<T, WireError>;

fn err<T>(s: impl Into<String>) -> WResult<T> {
    Err(WireError(s.into()))
}

#[derive(Default, Clone)]
pub struct Writer {
    pub buf: Vec<u8>,
}

impl Writer {
    pub fn new() -> Self {
        Self { buf: Vec::new() }
    }
    pub fn into_inner(self) -> Vec<u8> {
        self.buf
    }
    pub fn raw(&mut self, b: &[u8]) {
        self.buf.extend_from_slice(b);
    }
    pub fn byte(&mut self, v: u8) {
        self.buf.push(v);
    }
    pub fn short(&mut self, v: u16) {
        self.buf.extend_from_slice(&v.to_be_bytes());
    }
    pub fn int(&mut self, v: i32) {
        self.buf.extend_from_slice(&v.to_be_bytes());
    }
    pub fn long(&mut self, v: i64) {
        self.buf.extend_from_slice(&v.to_be_bytes());
    }
    pub fn string(&mut self, s: &str) {
        self.short(s.len() as u16);
        self.raw(s.as_bytes());
    }
    pub fn long_string(&mut self, s: &str) {
        self.int(s.len() as i32);
        self.raw(s.as_bytes());
    }
    pub fn uuid(&mut self, u: &[u8; 16]) {
        self.raw(u);
    }
    pub fn string_list(&mut self, l: &[String]) {
        self.short(l.len() as u16);
        for s in l {
            self.string(s);
        }
    }
    /// [bytes]: int length (negative = null) + content
    pub fn bytes_opt(&mut self, b: Option<&[u8]>) {
        match b {
            None => self.int(-1),
            Some(b) => {
                self.int(b.len() as i32);
                self.raw(b);
            }
        }
    }
    pub fn bytes(&mut self, b: &[u8]) {
        self.bytes_opt(Some(b));
    }
    pub fn short_bytes(&mut self, b: &[u8]) {
        self.short(b.len() as u16);
        self.raw(b);
    }
    pub fn string_map(&mut self, m: &BTreeMap<String, String>) {
        self.short(m.len() as u16);
        for (k, v) in m {
            self.string(k);
            self.string(v);
        }
    }
    pub fn string_multimap(&mut self, m: &BTreeMap<String, Vec<String>>) {
        self.short(m.len() as u16);
        for (k, v) in m {
            self.string(k);
            self.string_list(v);
        }
    }
    pub fn bytes_map(&mut self, m: &BTreeMap<String, Vec<u8>>) {
        self.short(m.len() as u16);
        for (k, v) in m {
            self.string(k);
            self.bytes(v);
        }
    }
    /// [inet]: one byte size (4|16), address bytes, int port
    pub fn inet(&mut self, ip: IpAddr, port: i32) {
        match ip {
            IpAddr::V4(a) => {
                self.byte(4);
                self.raw(&a.octets());
            }
            IpAddr::V6(a) => {
                self.byte(16);
                self.raw(&a.octets());
            }
        }
        self.int(port);
    }
    pub fn len(&self) -> usize {
        self.buf.len()
    }
    pub fn is_empty(&self) -> bool {
        self.buf.is_empty()
    }
}

pub struct Reader<'a> {
    pub data: &'a [u8],
    pub pos: usize,
}

impl<'a> Reader<'a> {
    pub fn new(data: &'a [u8]) -> Self {
        Self { data, pos: 0 }
    }
    pub fn remaining(&self) -> usize {
        self.data.len() - self.pos
    }
    pub fn take(&mut self, n: usize) -> WResult<&'a [u8]> {
        if self.remaining() < n {
            return err(format!("need {n} bytes at offset {}, only {} left", self.pos, self.remaining()));
        }
        let s = &self.data[self.pos..self.pos + n];
        self.pos += n;
        Ok(s)
    }
    pub fn rest(&mut self) -> &'a [u8] {
        let s = &self.data[self.pos..];
        self.pos = self.data.len();
        s
    }
    pub fn byte(&mut self) -> WResult<u8> {
        Ok(self.take(1)?[0])
    }
    pub fn short(&mut self) -> WResult<u16> {
        let b = self.take(2)?;
        Ok(u16::from_be_bytes([b[0], b[1]]))
    }
    pub fn int(&mut self) -> WResult<i32> {
        let b = self.take(4)?;
        Ok(i32::from_be_bytes([b[0], b[1], b[2], b[3]]))
    }
    pub fn long(&mut self) -> WResult<i64> {
        let b = self.take(8)?;
        Ok(i64::from_be_bytes(b.try_into().unwrap()))
    }
    pub fn string(&mut self) -> WResult<String> {
        let n = self.short()? as usize;
        let b = self.take(n)?;
        String::from_utf8(b.to_vec()).or_else(|_| err("invalid utf-8 in [string]"))
    }
    pub fn long_string(&mut self) -> WResult<String> {
        let n = self.int()?;
        if n < 0 {
            return err("negative [long string] length");
        }
        let b = self.take(n as usize)?;
        String::from_utf8(b.to_vec()).or_else(|_| err("invalid utf-8 in [long string]"))
    }
    pub fn string_list(&mut self) -> WResult<Vec<String>> {
        let n = self.short()? as usize;
        (0..n).map(|_| self.string()).collect()
    }
    pub fn bytes_opt(&mut self) -> WResult<Option<Vec<u8>>> {
        let n = self.int()?;
        if n < 0 {
            return Ok(None);
        }
        Ok(Some(self.take(n as usize)?.to_vec()))
    }
    pub fn short_bytes(&mut self) -> WResult<Vec<u8>> {
        let n = self.short()? as usize;
        Ok(self.take(n)?.to_vec())
    }
    pub fn string_map(&mut self) -> WResult<BTreeMap<String, String>> {
        let n = self.short()? as usize;
        let mut m = BTreeMap::new();
        for _ in 0..n {
            let k = self.string()?;
            let v = self.string()?;
            m.insert(k, v);
        }
        Ok(m)
    }
    pub fn string_multimap(&mut self) -> WResult<BTreeMap<String, Vec<String>>> {
        let n = self.short()? as usize;
        let mut m = BTreeMap::new();
        for _ in 0..n {
            let k = self.string()?;
            let v = self.string_list()?;
            m.insert(k, v);
        }
        Ok(m)
    }
    pub fn bytes_map(&mut self) -> WResult<BTreeMap<String, Vec<u8>>> {
        let n = self.short()? as usize;
        let mut m = BTreeMap::new();
        for _ in 0..n {
            let k = self.string()?;
            let v = self.bytes_opt()?.unwrap_or_default();
            m.insert(k, v);
        }
        Ok(m)
    }
    pub fn uuid(&mut self) -> WResult<[u8; 16]> {
        Ok(self.take(16)?.try_into().unwrap())
    }
    pub fn inet(&mut self) -> WResult<(IpAddr, i32)> {
        let n = self.byte()?;
        let ip = match n {
            4 => {
                let b = self.take(4)?;
                IpAddr::V4(Ipv4Addr::new(b[0], b[1], b[2], b[3]))
            }
            16 => {
                let b: [u8; 16] = self.take(16)?.try_into().unwrap();
                IpAddr::V6(Ipv6Addr::from(b))
            }
            _ => return err("bad [inet] size"),
        };
        Ok((ip, self.int()?))
    }
}

/// A bound value as it appears in QUERY/EXECUTE/BATCH: [value]
#[derive(Debug, Clone, PartialEq, Eq, Hash)]
pub enum Value {
    Null,
    NotSet,
    Bytes(Vec<u8>),
}

impl Value {
    pub fn read(r: &mut Reader) -> WResult<Value> {
        let n = r.int()?;
        Ok(match n {
            -1 => Value::Null,
            -2 => Value::NotSet,
            n if n < 0 => return err(format!("illegal [value] length {n}")),
            n => Value::Bytes(r.take(n as usize)?.to_vec()),
        })
    }
    pub fn write(&self, w: &mut Writer) {
        match self {
            Value::Null => w.int(-1),
            Value::NotSet => w.int(-2),
            Value::Bytes(b) => w.bytes(b),
        }
    }
}
